#!/usr/bin/env python3
"""Development helper (not used by checks): bootstrap a template from the current
extraction E0 by grafting annotated function texts from probe files.

usage: graft.py E0.rs probe1 probe2 ... > template.vrs

Items are recognised by indentation (rustfmt layout): an item starts at a line
whose indent is 0 (top level) or N+4 inside a container and ends at the first
following line equal to indent + '}' (or on the same line when it ends in ';' or
balances its braces).
"""
import re
import sys

HDR = re.compile(r'^(\s*)((?:pub(?:\([a-z]+\))?\s+)?(?:open\s+|closed\s+|uninterp\s+|broadcast\s+)*(?:unsafe\s+|const\s+|proof\s+|spec\s+|exec\s+|axiom\s+)*)'
                 r'(fn|impl|trait|struct|enum|union|mod|const|type|use|assume_specification|global)\b\s*(.*)$')


def balanced(s):
    return s.count('{') == s.count('}') and s.count('(') == s.count(')')


def split_items(lines, lo, hi, indent):
    """return list of (kind, key, start, end) for items at exactly `indent` within lines[lo:hi]"""
    items = []
    i = lo
    pre = ' ' * indent
    while i < hi:
        ln = lines[i]
        if not ln.strip():
            i += 1
            continue
        if not ln.startswith(pre) or (len(ln) > indent and ln[indent] == ' '):
            i += 1
            continue
        start = i
        # attribute / comment lines attach to next item
        j = i
        while j < hi and (lines[j].strip().startswith('#[') or lines[j].strip().startswith('//')):
            j += 1
        if j >= hi:
            break
        m = HDR.match(lines[j])
        if not m or len(m.group(1)) != indent:
            i = j + 1
            continue
        kind = m.group(3)
        rest = m.group(4)
        # find end
        k = j
        # single-line?
        acc = lines[j]
        if (acc.rstrip().endswith(';') or acc.rstrip().endswith('}')) and balanced(acc):
            end = j + 1
        else:
            k = j + 1
            while k < hi:
                if lines[k].rstrip() in (pre + '}', pre + '};') or (lines[k].startswith(pre) and not lines[k].startswith(pre + ' ')
                                                                     and lines[k].rstrip().endswith(';') and balanced('\n'.join(lines[j:k + 1]))):
                    break
                k += 1
            end = k + 1
        key = item_key(kind, rest, lines[j])
        items.append((kind, key, start, end, j))
        i = end
    return items


def item_key(kind, rest, line):
    if kind in ('fn', 'struct', 'enum', 'union', 'trait', 'mod', 'const', 'type'):
        m = re.match(r'([A-Za-z_0-9]+)', rest)
        return '%s %s' % (kind, m.group(1) if m else rest)
    if kind == 'impl':
        r = re.sub(r'^<[^>]*(?:<[^>]*>[^>]*)*>\s*', '', rest)      # drop generics
        r = r.split('{')[0].split(' where')[0].strip()
        if ' for ' in r:
            tr, ty = r.split(' for ', 1)
            tr = tr.split('::')[-1].split('<')[0].strip()
            ty = ty.split('<')[0].strip().split('::')[-1].strip()
            return 'impl %s for %s' % (tr, ty)
        return 'impl ' + r.split('<')[0].strip().split('::')[-1]
    return kind + ' ' + rest[:30]


def container_body(lines, item):
    kind, key, start, end, hdr = item
    # body lines are between header line (ending with '{') and closing line
    k = hdr
    while not lines[k].rstrip().endswith('{'):
        k += 1
    return k + 1, end - 1


VIS = re.compile(r'^(\s*)((?:pub(?:\([a-z]+\))?\s+)?)')


def fixvis(txt, e0_hdr):
    """keep the real visibility; drop #[inline] attribute lines"""
    txt = [l for l in txt if not re.match(r'^\s*#\[(inline|cold|target_feature)[^\]]*\]\s*$', l)]
    vis = VIS.match(e0_hdr).group(2)
    for i, l in enumerate(txt):
        if HDR.match(l) and not l.strip().startswith('#'):
            m = VIS.match(l)
            txt[i] = m.group(1) + vis + l[m.end():]
            break
    return txt


def main():
    e0 = open(sys.argv[1]).read().split('\n')
    probes = []
    for p in sys.argv[2:]:
        probes.append((p, open(p).read().split('\n')))
    # index probe fns: (container key or None, fn key) -> text
    pidx = {}
    pextra = {}
    for pname, pl in probes:
        for it in split_items(pl, 0, len(pl), 0):
            kind, key, s, e, h = it
            if kind in ('impl', 'trait', 'mod'):
                b0, b1 = container_body(pl, it)
                for sub in split_items(pl, b0, b1, 4):
                    pidx.setdefault((key, sub[1]), (pname, pl[sub[2]:sub[3]]))
                    pextra.setdefault(key, []).append((sub[1], pname, pl[sub[2]:sub[3]]))
            else:
                pidx.setdefault((None, key), (pname, pl[s:e]))
                pextra.setdefault(None, []).append((key, pname, pl[s:e]))
    out = []
    used = set()
    i = 0
    items = split_items(e0, 0, len(e0), 0)
    pos = 0
    for it in items:
        kind, key, s, e, h = it
        out.extend(e0[pos:s])
        if kind in ('impl', 'trait', 'mod'):
            b0, b1 = container_body(e0, it)
            # header: take from probe if a same-key container exists? keep E0 header
            out.extend(e0[s:b0])
            have = set()
            p2 = b0
            for sub in split_items(e0, b0, b1, 4):
                out.extend(e0[p2:sub[2]])
                hit = pidx.get((key, sub[1])) if sub[0] == 'fn' else None
                have.add(sub[1])
                if hit:
                    out.extend(fixvis(hit[1], e0[sub[4]]))
                    used.add((key, sub[1]))
                else:
                    out.extend(e0[sub[2]:sub[3]])
                p2 = sub[3]
            out.extend(e0[p2:b1])
            # extra (spec/proof) items of that container in probes
            for (k2, pname, txt) in pextra.get(key, []):
                if k2 not in have and (key, k2) not in used and k2 != 'fn caller':
                    out.extend(txt)
                    used.add((key, k2))
            out.extend(e0[b1:e])
        else:
            hit = pidx.get((None, key)) if kind == 'fn' else None
            if hit:
                out.extend(fixvis(hit[1], e0[h]))
                used.add((None, key))
            else:
                out.extend(e0[s:e])
        pos = e
    out.extend(e0[pos:])
    # leftover top-level probe items (lemmas, spec fns) appended at end
    tail = []
    for (k2, pname, txt) in pextra.get(None, []):
        if (None, k2) not in used:
            tail.extend(txt)
            used.add((None, k2))
    if tail:
        out.append('// ---- lemmas / spec items from probes ----')
        out.extend(tail)
    sys.stdout.write('\n'.join(out))
    unused = [k for k in pidx if k not in used]
    for k in unused:
        sys.stderr.write('UNUSED probe item: %s\n' % (k,))


if __name__ == '__main__':
    main()
