#!/usr/bin/env python3
"""./check <property-id> [--tier quick|thorough] [--replay FILE]

Decides one property on the CURRENT working tree of the repo:
  exit 0  every obligation serving the property was discharged (and the vacuity guards held)
  exit 1  + line `VIOLATION property=<id> replay=<path>[ no-failing-input-found]`
  exit 2  undecided (lost anchor, unsupported construct, resource limit, proof-script mismatch) - never an alarm
"""
import hashlib
import json
import os
import re
import shutil
import subprocess
import sys
import time

HERE = os.path.dirname(os.path.abspath(__file__))
sys.path.insert(0, HERE)
import units
import gen
import vrun
import props as P

VERIF = units.VERIF
WORK = os.environ.get('VERIF_WORK') or os.path.join(VERIF, 'work')


def log(*a):
    print(*a, flush=True)


# ---------------------------------------------------------------- helpers
def mod_of_part(part):
    p = units.PARTS.get(part)
    return p['mod'] if p else None


def fn_qual(lines, line):
    """(Type-or-outer-fn or None, fn) for the function enclosing generated-file line"""
    fn, fl = vrun.enclosing_fn(lines, line)
    ty = None
    if fl:
        ind = len(lines[fl - 1]) - len(lines[fl - 1].lstrip())
        i = fl - 2
        while i >= 0 and ind > 0:
            l = lines[i]
            if l.strip() and (len(l) - len(l.lstrip())) < ind:
                m = re.match(r'\s*(?:unsafe\s+)?impl(?:<[^{]*?>)?\s+(?:[A-Za-z_0-9:<>, \']+\s+for\s+)?([A-Za-z_0-9:]+)', l)
                if m:
                    ty = m.group(1).split('::')[-1]
                    break
                m = vrun.FN_HDR.match(l)
                if m:
                    ty = m.group(1)       # nested fn: qualified by the outer fn
                    break
                if re.match(r'\s*(pub\s+)?mod\s', l):
                    break
                ind = min(ind, len(l) - len(l.lstrip()) + 1)
            i -= 1
    return ty, fn


def fn_range(lines, line):
    """(first, last) generated-file lines of the function enclosing `line`, or None"""
    fn, fl = vrun.enclosing_fn(lines, line)
    if not fl:
        return None
    ind = len(lines[fl - 1]) - len(lines[fl - 1].lstrip())
    end = fl
    while end < len(lines):
        l = lines[end]
        m = vrun.FN_HDR.match(l)
        if m and (len(l) - len(l.lstrip())) <= ind:
            break
        end += 1
    return fl, end


LOOP_HEAD = re.compile(r"^(\s*)((?:'\w+\s*:\s*)?(?:while|loop|for)\b)")


def relax_loop_isolation(lines, ranges):
    """Second proof attempt for functions whose code changed: the same text with `#[verifier::loop_isolation(false)]`
    on every loop of those functions, so facts established before a loop (e.g. a hoisted `let last = end.sub(N)`) are
    visible inside it without being restated in the invariant.  Only an attribute is added, on the same line, so line
    numbers and regions stay valid; whatever this variant proves is a proof."""
    out = list(lines)
    n = 0
    for (fl, end) in ranges:
        for i in range(fl - 1, min(end, len(out))):
            m = LOOP_HEAD.match(out[i])
            if m and 'loop_isolation' not in out[i] and not (i > 0 and 'loop_isolation' in out[i - 1]):
                out[i] = m.group(1) + '#[verifier::loop_isolation(false)] ' + out[i][len(m.group(1)):]
                n += 1
    return out, n


def new_functions(lines, regions):
    """{name: line} of functions whose whole header is absent from the pinned extraction: new functions; the weaver
    has no annotation for them, so they carry no contract"""
    out = {}
    for ln, l in enumerate(lines, 1):
        m = vrun.FN_HDR.match(l)
        if m:
            tags = gen.locate(regions, ln)[2]
            if 'new' in tags and 'code' not in tags and 'annot' not in tags and 'prelude' not in tags:
                out[m.group(1)] = ln
    return out


def needs_contract(lines, line, newfns):
    """name of a new (contract-less) function that the function enclosing `line` is, or calls; else None"""
    if not newfns:
        return None
    rg = fn_range(lines, line)
    if not rg:
        return None
    fl, end = rg
    for n, ln in newfns.items():
        if fl <= ln <= end and ln == fl:
            return n
    body = '\n'.join(lines[fl - 1:end])
    for n in newfns:
        if re.search(r'(?<![A-Za-z_0-9])%s\s*(?:::<[^>]*>)?\s*\(' % re.escape(n), body):
            return n
    return None


def weaken_failed_invariants(lines, errors, inr):
    """Third proof attempt for functions whose code changed: every loop-invariant conjunct of the proof script (an
    annotation, never code) that Verus reports as not established / not preserved there is replaced by `true`.  A weaker
    invariant that still lets every obligation through is a proof; if the body needed the dropped fact, an obligation
    of the code fails instead and is reported as before.  Returns (new_lines, number_of_conjuncts_dropped)."""
    per_line = {}
    for e in errors:
        if e['kind'] != 'invariant' or 'annot' not in e['clause_tags'] or 'code' in e['clause_tags'] or 'new' in e['clause_tags']:
            continue
        if not inr(e['site_line']) or not inr(e['clause_line']):
            continue
        ln, c0, c1 = e['clause_line'], e.get('clause_col'), e.get('clause_col_end')
        if not c0 or not c1 or e.get('clause_line_end') != ln or c1 <= c0:
            continue
        per_line.setdefault(ln, set()).add((c0, c1))
    out = list(lines)
    n = 0
    for ln, spans in per_line.items():
        l = out[ln - 1]
        for (c0, c1) in sorted(spans, reverse=True):
            seg = l[c0 - 1:c1 - 1]
            if not seg.strip() or seg.strip() == 'true' or ',' in seg and seg.count('(') != seg.count(')'):
                continue
            l = l[:c0 - 1] + 'true' + ' ' * max(0, len(seg) - 4) + l[c1 - 1:]
            n += 1
        out[ln - 1] = l
    return out, n


def fn_changed(lines, regions, line):
    """does the function enclosing `line` contain tokens that differ from the pinned extraction?"""
    rg = fn_range(lines, line)
    if not rg:
        return False
    fl, end = rg
    for ln in range(fl, end + 1):
        kind, name, tags, local = gen.locate(regions, ln)
        if 'new' in tags or 'del' in tags:
            return True
    return False


def selected(select, module, ty, fn):
    name = ((ty + '::') if ty else '') + (fn or '')
    for mrx, frx in select:
        if re.search(mrx, module or '') and (re.fullmatch(frx, name) or re.fullmatch(frx, fn or '')):
            return True
    return False


def verus_name_selected(select, bname, vname):
    """vname like '<build>::arch::generic::memchr::One::find_raw' or 'core::...::consts'"""
    pref = bname + '::'
    if not vname.startswith(pref):
        return False
    segs = vname[len(pref):].split('::')
    # module = longest prefix that is a known module path
    mods = set(p['mod'] for p in units.PARTS.values()) | {'vbase'}
    for k in range(len(segs) - 1, 0, -1):
        m = '::'.join(segs[:k])
        if m in mods or any(x.startswith(m + '::') for x in mods):
            rest = segs[k:]
            # nested inline modules (vector::x86sse2) are part of the module for matching purposes
            fn = rest[-1]
            ty = rest[-2] if len(rest) >= 2 else None
            # the LONGEST module prefix is the function's module: do not fall through to a parent module (a selection
            # of `arch::all` must not pull in `arch::all::memchr::One::find_raw`)
            return selected(select, m, ty, fn) or selected(select, '::'.join(segs[:-1]), None, fn)
    return False


INV_CLAUSE = re.compile(r'\b(inv|wf)\(\)|\b(rdr|inbr|inb|readable)\s*\(|addr\(')
MEM_CLAUSE = re.compile(r'\b(rdr|inbr|inb|readable)\s*\(|addr\([a-z_]+\)\s*%|align_of')


def err_key(e):
    return '%s|%s|%s|%s' % (e.get('module'), e.get('qual'), e['kind'], re.sub(r'\s+', ' ', e.get('clause_text', ''))[:120])


# ---------------------------------------------------------------- canaries (vacuity guard)
def insert_canaries(text, regions, lines, select):
    """insert `assert(false);` at the start of every selected exec fn body; returns (new_text, expected list)"""
    out_lines = list(lines)
    expected = []
    for (s, e, kind, name, w) in regions:
        if kind != 'part' or w is None:
            continue
        module = mod_of_part(name)
        for off in getattr(w, 'body_open_lines', []):
            ln = s + off          # generated-file line (1-based) holding the body's opening brace
            ty, fn = fn_qual(lines, ln)
            if not fn or not selected(select, module, ty, fn):
                continue
            l = out_lines[ln - 1]
            k = l.rfind('{')
            if k < 0:
                continue
            out_lines[ln - 1] = l[:k + 1] + ' assert(false); /*canary*/' + l[k + 1:]
            expected.append((ln, module, ty, fn))
    return '\n'.join(out_lines), expected


# ---------------------------------------------------------------- main decision procedure
class Outcome:
    def __init__(self):
        self.violations = []      # dicts
        self.undecided = []       # strings
        self.known = []
        self.obligations = 0
        self.discharged = 0
        self.functions = {}
        self.samples = []
        self.trusted = []
        self.parts = []
        self.solver_ms = 0
        self.cmds = []
        self.canaries = (0, 0)
        self.notes = []


ALLOC_TOKENS = re.compile(r'\b(vec!|format!|String|Rc|Arc|HashMap|HashSet|BTreeMap|BTreeSet|VecDeque|LinkedList|BinaryHeap|'
                          r'to_string|to_owned|collect|into_boxed_slice|into_vec|GlobalAlloc|Layout|Cow)\b'
                          r'|\b(?:Box|Vec)\s*::\s*[a-z_]+|\balloc\s*::\s*alloc\b')


def scan_alloc(lines, regions):
    """(line, token) of code tokens (not annotations, not prelude) that name a std allocating construct which rule X16
    leaves in place"""
    out = []
    for i, l in enumerate(lines, 1):
        m = ALLOC_TOKENS.search(l)
        if not m or l.strip().startswith('//') or l.strip().startswith('use '):
            continue
        kind, name, tags, local = gen.locate(regions, i)
        if kind != 'part' or not (('code' in tags) or ('new' in tags)):
            continue
        out.append((i, m.group(0)))
    return out


def scan_trusted(text, regions):
    hits = []
    rx = re.compile(r'assume\s*\(|admit\s*\(|external_body|assume_specification|\baxiom\b|verifier::external\b|uninterp\s+spec')
    for i, l in enumerate(text.split('\n'), 1):
        if rx.search(l) and not l.strip().startswith('//'):
            kind, name, tags, local = gen.locate(regions, i)
            hits.append((name or kind, local, l.strip()[:140]))
    return hits


def load_known():
    out = []
    p = os.path.join(VERIF, 'known_findings.txt')
    if os.path.exists(p):
        for l in open(p):
            l = l.strip()
            m = re.match(r'finding:\s+property=(\S+)\s+key=(\S+)\s+(.*)', l)
            if m:
                out.append((m.group(1), m.group(2), m.group(3)))
    return out


def decide_build(pid, spec, b, tier, oc, seed):
    bname = b['build']
    os.makedirs(WORK, exist_ok=True)
    try:
        text, regions, infos = gen.gen_build(bname)
    except gen.GenError as e:
        oc.undecided.append('extraction: %s' % e)
        return
    oc.parts.extend(infos)
    for inf in infos:
        if inf.get('trusted_residue_changed'):
            # the text that a trusted rewrite REPLACES (the detect / AtomicPtr / transmute glue of `unsafe_ifunc!`, rule X6,
            # assumption A2) is not the pinned one: the assumption no longer describes the code, so nothing that goes
            # through the dispatcher is decided by the proof; the replayer, which runs the real dispatcher, cross-checks
            oc.undecided.append('%s: proof-script mismatch: source text of part %s that the extraction leaves out under a stated assumption '
                                '(the dispatch glue of `unsafe_ifunc!` replaced by rule X6 / A2, or the three `memrchrN_iter` Rev adapters) '
                                'differs from the pinned text; the assumption is not validated for this tree' % (bname, inf['part']))
    path = os.path.join(WORK, '%s_%s.rs' % (pid, bname))
    open(path, 'w').write(text)
    lines = text.split('\n')
    changed = any(i['changed_vs_pinned'] or i.get('trusted_residue_changed') for i in infos)
    have = set(units.PARTS[pn]['mod'] for pn in units.BUILDS[bname]['parts']) | {'vbase'}
    mods = [m for m in (b.get('modules') or []) if any(h == m or h.startswith(m + '::') for h in have)] or None
    b = dict(b, modules=mods)
    wide = units.BUILDS[bname].get('usize_bytes', 8) != 8
    # `global size_of usize == 4` is checked by rustc's final erasure pass against the 64-bit HOST: skip that pass only
    xtra = ['--no-erasure-check'] if wide else None
    r = vrun.run_verus(path, modules=mods, threads=int(os.environ.get('VERIF_THREADS', '4')), extra=xtra)
    oc.cmds.append(r.cmd)
    a = vrun.analyse(text, regions, r)
    if any(e['kind'] == 'rlimit' for e in a['errors']) or (r.json is None and 'imeout' in (r.raw_stderr or '')):
        # resource-limit hits are load-dependent: retry once with a larger budget before calling it undecided
        r2 = vrun.run_verus(path, modules=mods, threads=int(os.environ.get('VERIF_THREADS', '4')), extra=xtra, rlimit=40)
        a2 = vrun.analyse(text, regions, r2)
        if r2.json is not None and len(a2['errors']) <= len(a['errors']):
            oc.notes.append('%s: rlimit hit on first run, retried with --rlimit 40' % bname)
            r, a = r2, a2
            oc.cmds.append(r.cmd)
    if r.json is None:
        oc.undecided.append('verus produced no result for build %s (exit %s): %s' % (bname, r.returncode, r.raw_stderr[-400:]))
        return
    hint_dropped = set()      # (first, last) line ranges of functions that lost proof hints in the repair below
    if changed and a['hard_errors']:
        # Verus rejects the unit woven for the CHANGED tree.  Often the cause is a proof hint of the template (a
        # `proof { }` block or an `assert` statement) that no longer fits the code around it: it mentions a variable that
        # is gone, or it was transplanted into the middle of a rewritten expression.  Hints are optional for soundness,
        # so leave out the hint at (or right next to) each rejected position and try again, a few rounds.  The repaired
        # unit is used only to reach OK: obligations that stay undischarged in a function that lost hints are reported as
        # undecided (with the replayer cross-check), never as a violation.
        drop = {}
        cur_regions, cur_a = regions, a
        adopted = None
        for rnd in range(10):
            progressed = False
            for h in cur_a['hard_errors'][:6]:
                for (rs, re_, kind, name, w) in cur_regions:
                    if kind != 'part' or w is None or not (rs <= h['line'] <= re_):
                        continue
                    local = h['line'] - rs
                    have = drop.get(name, set())
                    cover = [k for (k, a0, b0) in w.hint_items if a0 <= local <= b0 and k not in have]
                    if not cover:
                        near = sorted((min(abs(local - b0), abs(a0 - local)), k) for (k, a0, b0) in w.hint_items if k not in have)
                        cover = [near[0][1]] if near and near[0][0] <= 2 else []
                    if cover:
                        drop.setdefault(name, set()).add(cover[0])
                        progressed = True
            if not progressed:
                break
            try:
                text2, regions2, infos2 = gen.gen_build(bname, drop_hints=drop)
            except gen.GenError:
                break
            path2 = os.path.join(WORK, '%s_%s_nohint.rs' % (pid, bname))
            open(path2, 'w').write(text2)
            try:
                r2 = vrun.run_verus(path2, modules=mods, threads=int(os.environ.get('VERIF_THREADS', '4')), extra=xtra,
                                    timeout=int(os.environ.get('VERIF_ATTEMPT_TIMEOUT', '240')))
            except subprocess.TimeoutExpired:
                break
            a2 = vrun.analyse(text2, regions2, r2)
            if r2.json is None:
                break
            cur_regions, cur_a = regions2, a2
            if not a2['hard_errors']:
                adopted = (text2, regions2, path2, r2, a2)
                break
        if adopted:
            text, regions, path, r, a = adopted
            lines = text.split('\n')
            ndrop = sum(len(v) for v in drop.values())
            for (rs, re_, kind, name, w) in regions:
                if kind == 'part' and w is not None and name in drop:
                    for (k, a0, b0) in w.hint_items:
                        if k in drop[name]:
                            rg = fn_range(lines, rs + a0)
                            if rg:
                                hint_dropped.add(rg)
            oc.notes.append('%s: verus rejected the unit woven for the changed tree; accepted after leaving out %d proof hint(s) of the '
                            'template that no longer fit (%s)' % (bname, ndrop, ', '.join('%s:%s' % (k, sorted(v)) for k, v in drop.items())))
            oc.cmds.append(r.cmd)
    if changed and a['errors'] and not a['hard_errors']:
        # a function whose code changed fails an obligation: before reporting, try the sound repairs of the proof
        # script that need no new annotation: (1) loop_isolation(false) on the loops of those functions, (2) dropping
        # the invariant conjuncts of the proof script that fail there (up to three rounds).  Every attempt is a full
        # Verus run on a text that differs from the first only in annotations of those functions; per function, the
        # changed functions are judged by the last attempt that improved them, all others by the first run.
        ranges = set()
        for e in a['errors']:
            rg = fn_range(lines, e['site_line'])
            if rg and fn_changed(lines, regions, e['site_line']):
                ranges.add(rg)
        inr = lambda ln: any(fl <= ln <= end for (fl, end) in ranges)
        c1 = os.path.basename(path)[:-3]

        def attempt(vlines, tag, what, rlimit=None):
            """run the variant; merge per function; returns (improved, variant_analysis)"""
            nonlocal a
            vtext = '\n'.join(vlines)
            vpath = os.path.join(WORK, '%s_%s_%s.rs' % (pid, bname, tag))
            open(vpath, 'w').write(vtext)
            try:
                # time-boxed: a variant with weakened invariants can send the solver into long fruitless searches
                rv = vrun.run_verus(vpath, modules=mods, threads=int(os.environ.get('VERIF_THREADS', '4')), extra=xtra, rlimit=rlimit,
                                    timeout=int(os.environ.get('VERIF_ATTEMPT_TIMEOUT', '240')))
            except subprocess.TimeoutExpired:
                oc.notes.append('%s: %s timed out, ignored' % (bname, what))
                return False, None
            av = vrun.analyse(vtext, regions, rv)
            if rv.json is None or av['hard_errors']:
                return False, None
            errs = [e for e in a['errors'] if not inr(e['site_line'])] + [e for e in av['errors'] if inr(e['site_line'])]
            if len(errs) >= len(a['errors']):
                return False, av
            c2 = os.path.basename(vpath)[:-3]
            funcs = dict(a['functions'])
            for (fl, end) in ranges:
                ty, fn = fn_qual(lines, fl)
                part = gen.locate(regions, fl)[1]
                module = mod_of_part(part) if part in units.PARTS else None
                suffix = '::' + ((ty + '::') if ty else '') + (fn or '?')
                for k2, v2 in av['functions'].items():
                    k1 = c1 + k2[len(c2):]
                    if k2.endswith(suffix) and module and ('::' + module + '::') in k2 and k1 in funcs:
                        funcs[k1] = v2
            oc.notes.append('%s: %d obligation(s) failed in changed functions; %s left %d' % (bname, len(a['errors']), what, len(errs)))
            a = dict(a, errors=errs, functions=funcs)
            oc.cmds.append(rv.cmd)
            return True, av

        cur = lines
        lines2, n_iso = relax_loop_isolation(lines, sorted(ranges)) if ranges else (lines, 0)
        last_av = a
        if n_iso:
            ok2, av = attempt(lines2, 'iso', 'second attempt with loop_isolation(false) on %d loop(s) of those functions' % n_iso, rlimit=40)
            if av is not None:
                cur, last_av = lines2, av      # keep the relaxed loops for the next attempts even if they did not help alone
        for rnd in range(2):
            if not any(inr(e['site_line']) for e in a['errors']):
                break
            cur2, n_drop = weaken_failed_invariants(cur, [e for e in last_av['errors'] if inr(e['site_line'])], inr)
            if not n_drop:
                break
            ok3, av = attempt(cur2, 'inv%d' % rnd, 'attempt with %d failing invariant conjunct(s) of the proof script dropped' % n_drop)
            if av is None:
                break
            cur, last_av = cur2, av
    sel = b['select']
    # ---- hard (compile / unsupported) errors: nothing was verified
    if a['hard_errors']:
        h = a['hard_errors'][0]
        oc.undecided.append('%s: verus rejected the generated unit (%s) at part %s: %s | %s'
                            % (bname, 'tree changed' if changed else 'UNCHANGED TREE - framework problem',
                               h['part'], h['message'][:200], h['text'][:120]))
        return
    # ---- ledger of selected functions
    sel_funcs = {n: f for n, f in a['functions'].items() if verus_name_selected(sel, os.path.basename(path)[:-3], n)}
    for n, f in sel_funcs.items():
        if f['mode'] in ('exec', 'proof'):
            oc.obligations += 1
            if f['success']:
                oc.discharged += 1
        oc.solver_ms += f['micros'] / 1000.0
        oc.functions[bname + '::' + n.split('::', 1)[1]] = dict(mode=f['mode'], ok=f['success'], ms=round(f['micros'] / 1000.0, 1),
                                                                rlimit=f['rlimit'])
    # baseline ledger (vacuity guard i)
    lpath = os.path.join(VERIF, 'ledger', '%s_%s.json' % (pid, bname))
    cur_names = sorted(n.split('::', 1)[1] for n, f in sel_funcs.items() if f['mode'] in ('exec', 'proof'))
    if os.environ.get('VERIF_WRITE_LEDGER'):
        os.makedirs(os.path.dirname(lpath), exist_ok=True)
        json.dump(cur_names, open(lpath, 'w'), indent=0)
    if os.path.exists(lpath):
        base = json.load(open(lpath))
        missing = [n for n in base if n not in cur_names]
        if missing:
            oc.undecided.append('%s: %d functions of the baseline ledger are no longer verified units (lost anchor / removed): %s'
                                % (bname, len(missing), ', '.join(missing[:5])))
    else:
        oc.notes.append('no baseline ledger for %s/%s' % (pid, bname))
    if not sel_funcs:
        oc.undecided.append('%s: no obligation selected (vacuous)' % bname)
    # ---- failures
    kinds = spec.get('kinds')
    known = load_known()
    newfns = new_functions(lines, regions) if changed else {}
    for e in a['errors']:
        module = mod_of_part(e['part']) if e['part'] in units.PARTS else (os.path.basename(str(e['part']))[:-4] if e['part'] and 'prelude' in str(e['part']) else None)
        ty, fn = fn_qual(lines, e['site_line'])
        e['module'], e['qual'] = module, ((ty + '::') if ty else '') + (fn or '?')
        if not selected(sel, module, ty, fn):
            continue
        k = e['kind']
        if k == 'rlimit':
            oc.undecided.append('%s: resource limit in %s::%s' % (bname, module, e['qual']))
            continue
        if any(fl <= e['site_line'] <= end for (fl, end) in hint_dropped):
            oc.undecided.append('%s: proof-script mismatch: %s::%s lost proof hints that no longer fit its changed code and a %s obligation '
                                'at `%s` stays undischarged' % (bname, module, e['qual'], k, e['site_text'][:60]))
            continue
        nc = needs_contract(lines, e['site_line'], newfns)
        if nc:
            # modular verification knows nothing about a function that has no contract: an obligation that fails in
            # such a function, or in a caller of it, says "needs contract", not "the code is wrong" -- undecided; the
            # replayer cross-check below still turns it into a VIOLATION when it finds a concrete failing input
            oc.undecided.append('%s: proof-script mismatch: %s::%s is or calls the new function `%s`, which has no contract '
                                '(%s obligation at `%s` undischarged)' % (bname, module, e['qual'], nc, k, e['site_text'][:60]))
            continue
        hint = k in ('assertion', 'recommends') and 'code' not in e['site_tags']
        extra_ok = False
        for (ek, frx, crx) in spec.get('also', []):
            if k == ek and re.search(frx, e['qual'] or '') and re.search(crx, e['clause_text'] or '') \
                    and not re.search(r'forall|exists', e['clause_text'] or ''):
                extra_ok = True
        foreign = None
        if kinds and k not in kinds and not hint and not extra_ok:
            # a failure kind that belongs to another property (e.g. arithmetic -> C14)
            foreign = 'kind %s' % k
        elif spec.get('clause_only') and not hint and not re.search(spec['clause_only'], e['clause_text'] or ''):
            foreign = 'kind %s, clause not of this property' % k
        elif spec.get('mem_only') and not hint and not ((k == 'precondition' and MEM_CLAUSE.search(e['clause_text'])) or
                                                        (k in ('postcondition', 'invariant') and INV_CLAUSE.search(e['clause_text']))):
            foreign = 'not a memory obligation'
        elif spec.get('non_mem') and k == 'precondition' and MEM_CLAUSE.search(e['clause_text']):
            foreign = 'memory obligation'
        if foreign:
            # not this property's obligation, so not its VIOLATION -- but the verifier assumes a failed obligation from
            # there on, so this property's own obligations in that function are proved only conditionally: undecided
            oc.undecided.append('%s: proof-script mismatch: an obligation of another property (%s) fails in %s::%s, so the '
                                'obligations of %s there are discharged only under that assumption'
                                % (bname, foreign, module, e['qual'], pid))
            continue
        code_level = k in ('postcondition', 'precondition', 'arithmetic', 'bounds', 'trait-contract', 'invariant', 'decreases') \
            or (k == 'assertion' and 'code' in e['site_tags']) or (k == 'recommends' and 'code' in e['site_tags'])
        if not code_level and fn_changed(lines, regions, e['site_line']):
            # a proof step that verified on the pinned tree fails after the code of THIS function changed: the
            # verifier assumes a failed assertion afterwards, so the postcondition it supports is not re-checked
            code_level = True
            e['message'] += ' (proof step of a function whose code changed)'
        key = err_key(e)
        hk = hashlib.sha1(key.encode()).hexdigest()[:10]
        kf = [x for x in known if x[0] == pid and x[1] == hk]
        if kf:
            oc.known.append((hk, kf[0][2]))
            continue
        rec = dict(build=bname, key=hk, kind=k, module=module, function=e['qual'], message=e['message'],
                   site=e['site_text'], site_tags=e['site_tags'], clause=e['clause_text'], clause_tags=e['clause_tags'],
                   tree_changed=changed)
        if code_level:
            oc.violations.append(rec)
        else:
            oc.undecided.append('%s: proof-script mismatch in %s::%s (%s at `%s`)' % (bname, module, e['qual'], k, e['site_text'][:80]))
            oc.notes.append(json.dumps(rec))
    # ---- C17: allocating constructs that rule X16 does not redirect must not occur outside permitted functions
    if spec.get('alloc_scan'):
        for (ln, tok) in scan_alloc(lines, regions):
            rg = fn_range(lines, ln)
            hdr = '\n'.join(lines[rg[0] - 1:ln]) if rg else ''
            if 'may_alloc()' in hdr.split('{')[0]:
                continue
            ty, fn = fn_qual(lines, ln)
            oc.undecided.append('%s: proof-script mismatch: allocating construct `%s` that rule X16 does not model, in %s%s (line `%s`)'
                                % (bname, tok, (ty + '::') if ty else '', fn or '?', lines[ln - 1].strip()[:80]))
    # ---- trusted scan
    for t in scan_trusted(text, regions):
        oc.trusted.append('%s:%d %s' % t)
    bad = [t for t in scan_trusted(text, regions) if re.search(r'assume\s*\(|admit\s*\(', t[2]) and not str(t[0]).startswith('prelude')]
    if bad:
        oc.undecided.append('%s: assume/admit inside a part: %s' % (bname, bad[0]))
    # ---- canaries (vacuity guard ii): every selected exec function must FAIL with assert(false) at its entry
    if not oc.violations and not oc.undecided and not os.environ.get('VERIF_NO_CANARY'):
        ctext, expected = insert_canaries(text, regions, lines, sel)
        perm_line = None
        if spec.get('perm_canary') and expected:
            # the allocation permission must not be derivable: a function WITHOUT `requires may_alloc()` that calls a
            # gated allocator has to fail exactly that precondition
            cl = ctext.split('\n')
            for i, l in enumerate(cl):
                if '@PERM-CANARY@' in l:
                    cl[i] = 'pub fn perm_canary(s: &[u8]) -> alloc::boxed::Box<[u8]> { alloc_box_from(s) } /*canary-perm*/'
                    perm_line = i + 1
                    break
            ctext = '\n'.join(cl)
        if expected:
            cpath = os.path.join(WORK, '%s_%s_canary.rs' % (pid, bname))
            open(cpath, 'w').write(ctext)
            cr = vrun.run_verus(cpath, modules=b.get('modules'), threads=int(os.environ.get('VERIF_THREADS', '4')),
                                multiple_errors=1, extra=xtra, spinoff=False)   # every canary fails at once: no need for isolation
            ca = vrun.analyse(ctext, regions, cr)
            failed_lines = set()
            for e in ca['errors']:
                if e['kind'] == 'assertion' and 'canary' in e['site_text']:
                    failed_lines.add(e['site_line'])
            # a function may fail earlier for another reason only if it is external_body (no body check)
            alive = []
            clines = ctext.split('\n')
            for (ln, module, ty, fn) in expected:
                if ln in failed_lines:
                    continue
                # external_body functions have no obligations: skip
                j = ln - 1
                ext = False
                while j > 0 and j > ln - 60:
                    if 'external_body' in clines[j - 1]:
                        ext = True
                        break
                    if re.match(r'\s*(pub\s+)?(unsafe\s+)?fn\s', clines[j - 1]) and j != ln:
                        hdr = vrun.FN_HDR.match(clines[j - 1])
                        if hdr and hdr.group(1) == fn:
                            # look a few lines above the header for attributes
                            for q in range(max(0, j - 4), j):
                                if 'external_body' in clines[q]:
                                    ext = True
                            break
                    j -= 1
                if not ext:
                    alive.append('%s::%s%s' % (module, (ty + '::') if ty else '', fn))
            oc.canaries = (len(expected), len(expected) - len(alive))
            if spec.get('perm_canary'):
                if perm_line and any(e['kind'] == 'precondition' and e['site_line'] == perm_line and 'may_alloc' in (e['clause_text'] or '')
                                     for e in ca['errors']):
                    oc.notes.append('%s: permission canary failed its `requires may_alloc()` as required' % bname)
                else:
                    oc.undecided.append('%s: allocation-permission canary did not fail (permission vacuous or marker lost)' % bname)
            if ca['hard_errors'] or cr.json is None:
                oc.undecided.append('canary unit rejected by verus: %s' % (ca['hard_errors'][0]['message'][:200] if ca['hard_errors'] else cr.raw_stderr[:200]))
            elif alive:
                oc.undecided.append('%s: vacuity canary verified (contradictory precondition?) in: %s' % (bname, ', '.join(alive[:6])))
    # samples
    for e in a['errors'][:3]:
        pass
    return a


def sample_obligations(oc, k=6):
    names = sorted(oc.functions)
    step = max(1, len(names) // k)
    return [dict(function=n, **oc.functions[n]) for n in names[::step][:k]]


def write_replay(pid, v, idx, extra=None):
    os.makedirs(os.path.join(VERIF, 'replay'), exist_ok=True)
    path = os.path.join(VERIF, 'replay', '%s-%d.json' % (pid, idx))
    rec = dict(property=pid, obligation=v, failing_input=None, note='no-failing-input-found')
    if extra:
        rec.update(extra)
    json.dump(rec, open(path, 'w'), indent=1)
    return path


def main():
    args = sys.argv[1:]
    if not args:
        print(__doc__)
        sys.exit(2)
    pid = args[0]
    tier = os.environ.get('VERIF_TIER', 'quick')
    replay = None
    i = 1
    while i < len(args):
        if args[i] == '--tier':
            tier = args[i + 1]
            i += 2
        elif args[i] == '--replay':
            replay = args[i + 1]
            i += 2
        else:
            i += 1
    seed = int(os.environ.get('VERIF_SEED', '0') or 0)
    if pid not in P.PROPS:
        print('unknown or unclaimed property %s' % pid)
        sys.exit(2)
    spec = P.PROPS[pid]
    t0 = time.time()
    if replay:
        return do_replay(pid, spec, replay)
    oc = Outcome()
    from concurrent.futures import ThreadPoolExecutor
    subs = [Outcome() for _ in spec['builds']]
    with ThreadPoolExecutor(max_workers=int(os.environ.get('VERIF_BUILD_JOBS', '5'))) as ex:
        futs = [ex.submit(decide_build, pid, spec, b, tier, so, seed) for b, so in zip(spec['builds'], subs)]
        for f in futs:
            f.result()
    for so in subs:
        oc.violations += so.violations
        oc.undecided += so.undecided
        oc.known += so.known
        oc.obligations += so.obligations
        oc.discharged += so.discharged
        oc.functions.update(so.functions)
        oc.trusted += so.trusted
        oc.parts += so.parts
        oc.solver_ms += so.solver_ms
        oc.cmds += so.cmds
        oc.canaries = (oc.canaries[0] + so.canaries[0], oc.canaries[1] + so.canaries[1])
        oc.notes += so.notes
    # Kani components
    kani_results = []
    if spec.get('kani'):
        import kani_run
        kani_results = kani_run.run_for(pid, spec, tier, oc)
    # supplementary exploration (never proof): properties that rest partly on trusted/bounded components get a
    # time-boxed concrete search against the real crate; only a failing execution is reported (a sound alarm)
    explore = None
    if spec.get('explore') and not oc.violations and not os.environ.get('VERIF_NO_REPLAYER'):
        import replayer_run
        budget = 8000 if tier == 'quick' else 90000
        found = replayer_run.search(pid, None, seed, budget_ms=budget)
        explore = dict(budget_ms=budget, result=(found or {}).get('note'))
        if found and found.get('failing_input'):
            oc.violations.append(dict(build='replayer', key='replayer-explore', kind='concrete-counterexample', module='-', function='-',
                                      message='supplementary concrete search found an input violating the executable mirror of the property '
                                              '(in code that is not under contract: trusted constructor / fn-pointer glue)',
                                      site=found['failing_input'].get('message', '')[:200], site_tags=[], clause='', clause_tags=[],
                                      tree_changed=None, _found=found))
    wall = time.time() - t0
    for hk, what in oc.known:
        log('KNOWN-FINDING: property=%s %s [%s]' % (pid, what, hk))
    # evidence
    ev = dict(
        property_id=pid, tier=tier, seed=seed, level=spec.get('level', 'proof'),
        coverage=dict(
            obligations=oc.obligations, discharged=oc.discharged,
            checker_cmd='; '.join(oc.cmds) or 'verus (not reached)',
            trusted_base=sorted(set(oc.trusted))[:400],
            samples=sample_obligations(oc),
            functions_under_contract=oc.functions,
            per_backend=dict(verus_z3=dict(obligations=oc.obligations, discharged=oc.discharged,
                                           solver_ms=round(oc.solver_ms, 1)),
                             kani_cbmc=kani_results),
            extraction=oc.parts,
            vacuity=dict(canaries_inserted=oc.canaries[0], canaries_failed_as_required=oc.canaries[1]),
            undecided=oc.undecided, notes=oc.notes[:50], supplementary_exploration=explore,
            explanation=spec.get('explanation', 'Verus discharges the contracts of the listed functions (extracted from the working '
                                                'tree on this run); obligations = verified exec/proof functions serving the property'),
        ),
        assumptions=spec.get('assumptions', []) + P.COMMON_ASSUMPTIONS,
        wall_s=round(wall, 2), violations=len(oc.violations),
    )
    if spec.get('level') != 'proof':
        ev['coverage']['explanation'] = spec.get('explanation', ev['coverage']['explanation'])
    evdir = os.environ.get('VERIF_EVIDENCE_DIR') or os.path.join(VERIF, 'evidence')
    os.makedirs(evdir, exist_ok=True)
    json.dump(ev, open(os.path.join(evdir, pid + '.json'), 'w'), indent=1)
    if oc.violations:
        import replayer_run
        for n, v in enumerate(oc.violations[:3]):
            found = v.pop('_found', None) or replayer_run.search(pid, v, seed)
            path = write_replay(pid, v, n, found)
            tail = '' if (found and found.get('failing_input')) else ' no-failing-input-found'
            log('obligation failed: [%s] %s::%s  %s  clause: %s' % (v['kind'], v['module'], v['function'], v['site'][:100], v['clause'][:100]))
            log('VIOLATION property=%s replay=%s%s' % (pid, path, tail))
        return 1
    if oc.undecided:
        changed = any(i.get('changed_vs_pinned') or i.get('trusted_residue_changed') for i in oc.parts)
        if changed and any(('verus rejected' in u or 'proof-script mismatch' in u or 'resource limit' in u) for u in oc.undecided):
            # the verifier could not decide the CHANGED tree: a concrete failing execution of the real code is still a
            # sound alarm (DESIGN 2.5 cross-check); without one the verdict stays undecided
            import replayer_run
            # a different seed than the exploration above (which ran the first 8 s of THIS seed's sequence already), and a
            # longer budget: this path is only taken on a changed tree the verifier could not decide
            found = replayer_run.search(pid, None, seed + 7919, budget_ms=int(os.environ.get('VERIF_REPLAY_BUDGET_MS', '30000')))
            if found and found.get('failing_input'):
                v = dict(build='replayer', key='replayer', kind='concrete-counterexample', module='-', function='-',
                         message='verifier undecided on the changed tree; the replayer found an input violating the executable '
                                 'mirror of the contract', site='; '.join(oc.undecided)[:300], site_tags=[], clause='', clause_tags=[],
                         tree_changed=True)
                path = write_replay(pid, v, 0, found)
                log('VIOLATION property=%s replay=%s' % (pid, path))
                return 1
        for u in oc.undecided:
            log('UNDECIDED property=%s %s' % (pid, u))
        return 2
    log('OK property=%s obligations=%d discharged=%d canaries=%d/%d wall=%.1fs' % (pid, oc.obligations, oc.discharged,
                                                                                  oc.canaries[1], oc.canaries[0], wall))
    return 0


def do_replay(pid, spec, path):
    rec = json.load(open(path))
    if rec.get('failing_input'):
        import replayer_run
        ok = replayer_run.replay(pid, rec)
        log('replay: %s' % ('input still fails' if not ok else 'input passes now'))
        return 0 if ok else 1
    # no concrete input: re-run the deciding check and report whether the same obligation still fails
    oc = Outcome()
    for b in spec['builds']:
        decide_build(pid, spec, b, 'quick', oc, 0)
    keys = [v['key'] for v in oc.violations]
    if rec['obligation']['key'] in keys:
        log('replay: obligation %s still fails: %s' % (rec['obligation']['key'], rec['obligation']['site']))
        return 1
    log('replay: obligation %s no longer fails' % rec['obligation']['key'])
    return 0


if __name__ == '__main__':
    try:
        rc = main()
    except SystemExit:
        raise
    except BaseException as ex:     # a crash of the machinery is never an alarm: exit 2, say why
        import traceback
        traceback.print_exc()
        print('UNDECIDED internal error in the check machinery: %r' % (ex,))
        rc = 2
    sys.exit(rc)
