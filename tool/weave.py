"""Weave the annotations of a template P (annotated copy of the pinned extraction E0)
into the extraction E of the current working tree.

Invariant guaranteed (and re-checked) on every run: the code tokens of the woven
text, in order, are exactly the tokens of E.  All other tokens come from the
template and are specification / proof text.
"""
import difflib
from rlex import lex, OPEN, CLOSE


class WeaveError(Exception):
    pass


def _keys(toks):
    """token keys for alignment: brackets carry their nesting depth (disambiguates closers)"""
    keys = []
    d = 0
    for t in toks:
        if t.t in OPEN:
            keys.append('%s@%d' % (t.t, d))
            d += 1
        elif t.t in CLOSE:
            d -= 1
            keys.append('%s@%d' % (t.t, d))
        else:
            keys.append(t.t)
    return keys


def _lines(src, toks, keys=None):
    """group token indices by source line -> list of (key tuple, first_idx, last_idx+1)"""
    if keys is None:
        keys = [t.t for t in toks]
    out = []
    cur_line_end = -1
    start = 0
    pos_line = []
    # compute line number for each token start
    import bisect
    nl = [i for i, ch in enumerate(src) if ch == '\n']
    prev_ln = None
    for idx, t in enumerate(toks):
        ln = bisect.bisect_left(nl, t.s)
        if ln != prev_ln:
            if prev_ln is not None:
                out.append((tuple(keys[start:idx]), start, idx))
            start = idx
            prev_ln = ln
    if toks:
        out.append((tuple(keys[start:]), start, len(toks)))
    return out


def _seq_align(a, b):
    """matching pairs (i,j) between sequences a and b (increasing)"""
    sm = difflib.SequenceMatcher(None, a, b, autojunk=False)
    pairs = []
    for blk in sm.get_matching_blocks():
        for k in range(blk.size):
            pairs.append((blk.a + k, blk.b + k))
    return pairs


def align(a_src, a_toks, b_src, b_toks, depth_keys=True):
    """two-level (lines, then tokens) alignment; returns list m with m[i] = j or None for every a token"""
    ka = _keys(a_toks) if depth_keys else [t.t for t in a_toks]
    kb = _keys(b_toks) if depth_keys else [t.t for t in b_toks]
    la, lb = _lines(a_src, a_toks, ka), _lines(b_src, b_toks, kb)
    m = [None] * len(a_toks)
    lp = _seq_align([x[0] for x in la], [x[0] for x in lb])
    # walk gaps
    prev_a, prev_b = 0, 0   # token indices
    for (ia, ib) in lp + [(len(la), len(lb))]:
        a_lo = prev_a
        a_hi = la[ia][1] if ia < len(la) else len(a_toks)
        b_lo = prev_b
        b_hi = lb[ib][1] if ib < len(lb) else len(b_toks)
        if a_hi > a_lo and b_hi > b_lo:
            for (x, y) in _seq_align(ka[a_lo:a_hi], kb[b_lo:b_hi]):
                m[a_lo + x] = b_lo + y
        if ia < len(la):
            n = la[ia][2] - la[ia][1]
            for k in range(n):
                m[la[ia][1] + k] = lb[ib][1] + k
            prev_a, prev_b = la[ia][2], lb[ib][2]
    return m


MARK_OPEN, MARK_CLOSE = '/*<*/', '/*>*/'


def forced_annotation(p_src, p_toks):
    """token indices of P inside /*<*/ ... /*>*/ markers: always annotation"""
    forced = set()
    pos = 0
    spans = []
    while True:
        a = p_src.find(MARK_OPEN, pos)
        if a < 0:
            break
        b = p_src.find(MARK_CLOSE, a)
        if b < 0:
            raise WeaveError('unterminated annotation marker at offset %d' % a)
        spans.append((a, b))
        pos = b + len(MARK_CLOSE)
    if spans:
        k = 0
        for j, t in enumerate(p_toks):
            while k < len(spans) and spans[k][1] < t.s:
                k += 1
            if k < len(spans) and spans[k][0] <= t.s < spans[k][1]:
                forced.add(j)
    return forced


def _balanced(ts):
    d = 0
    for t in ts:
        if t in OPEN:
            d += 1
        elif t in CLOSE:
            d -= 1
            if d < 0:
                return False
    return d == 0


def _rotate(m, p_toks):
    """prefer alignments whose annotation runs are bracket-balanced (see DESIGN 2.1)"""
    n = len(m)
    changed = True
    rounds = 0
    while changed and rounds < 4:
        changed = False
        rounds += 1
        for i in range(n):
            j = m[i]
            nxt = m[i + 1] if i + 1 < n else len(p_toks)
            prv = m[i - 1] if i > 0 else -1
            # run after code token j: P[j+1 .. nxt): move the code token right to a same-text token q such that
            # both [tok]+run[:q] and run[q+1:] are balanced
            if nxt - j > 1:
                run = [t.t for t in p_toks[j + 1:nxt]]
                if not _balanced(run) and p_toks[j].t in OPEN or (not _balanced(run) and p_toks[j].t in CLOSE):
                    moved = False
                    for q in range(len(run) - 1, -1, -1):
                        if run[q] == p_toks[j].t and _balanced([p_toks[j].t] + run[:q]) and _balanced(run[q + 1:]):
                            m[i] = j + 1 + q
                            changed = True
                            moved = True
                            break
                    if moved:
                        continue
            # run before code token j: P[prv+1 .. j): move the code token left
            if j - prv > 1:
                run = [t.t for t in p_toks[prv + 1:j]]
                if not _balanced(run) and (p_toks[j].t in OPEN or p_toks[j].t in CLOSE):
                    for q in range(len(run)):
                        if run[q] == p_toks[j].t and _balanced(run[:q]) and _balanced(run[q + 1:] + [p_toks[j].t]):
                            m[i] = prv + 1 + q
                            changed = True
                            break
    return m


def subseq_align(e_src, e_toks, p_src, p_toks):
    """E0 must be a token subsequence of P; returns m[i] = index in P, strictly increasing."""
    forced = forced_annotation(p_src, p_toks)
    if forced:
        keep = [j for j in range(len(p_toks)) if j not in forced]
        sub = [p_toks[j] for j in keep]
        m = _subseq_align(e_src, e_toks, p_src, sub)
        # rotation must not move onto forced tokens: done inside on the filtered list
        return [keep[x] for x in m]
    return _subseq_align(e_src, e_toks, p_src, p_toks)


def _subseq_align(e_src, e_toks, p_src, p_toks):
    m = align(e_src, e_toks, p_src, p_toks)
    if any(x is None for x in m):
        # fall back to greedy repair around the unmatched tokens
        m = _repair(e_toks, p_toks, m)
    bad = [i for i, x in enumerate(m) if x is None]
    if bad:
        i = bad[0]
        ctx = ' '.join(t.t for t in e_toks[max(0, i - 8):i + 5])
        raise WeaveError('template does not contain the extracted code: %d tokens unmatched, first near: %s'
                         % (len(bad), ctx))
    m = _rotate(m, p_toks)
    for i in range(1, len(m)):
        if m[i] <= m[i - 1]:
            raise WeaveError('alignment not increasing at token %d' % i)
    return m


def _repair(e_toks, p_toks, m):
    """for each maximal run of e tokens that is partly unmatched, redo a greedy subsequence match in the P window"""
    n = len(m)
    i = 0
    m = list(m)
    while i < n:
        if m[i] is not None:
            i += 1
            continue
        lo = i
        while lo > 0 and m[lo - 1] is not None and lo > i - 6:
            lo -= 1
        hi = i
        while hi < n and (m[hi] is None or hi < i + 6):
            hi += 1
        # widen until both borders matched
        p_lo = (m[lo - 1] + 1) if lo > 0 and m[lo - 1] is not None else 0
        k = hi
        while k < n and m[k] is None:
            k += 1
        p_hi = m[k] if k < n else len(p_toks)
        j = p_lo
        ok = True
        new = {}
        for a in range(lo, k):
            while j < p_hi and p_toks[j].t != e_toks[a].t:
                j += 1
            if j >= p_hi:
                ok = False
                break
            new[a] = j
            j += 1
        if ok:
            for a, j in new.items():
                m[a] = j
        i = k + 1
    return m


class Woven:
    def __init__(self):
        self.text = ''
        self.line_tags = []     # per output line (0-based): set of tags {'code','new','annot'}
        self.changed = False
        self.code_tokens = 0
        self.annot_tokens = 0
        self.new_tokens = 0
        self.removed_tokens = 0
        self.notes = ''
        self.body_open_lines = []   # 0-based line offsets (in text) of the `{` opening each fn body
        self.hint_items = []        # (ordinal, first_line, last_line) 0-based line offsets of statement-level proof hints


def weave(e_src, e0_src, p_src, drop_hints=None):
    e_toks, e0_toks, p_toks = lex(e_src), lex(e0_src), lex(p_src)
    if not e_toks and not e0_toks:
        w = Woven()
        w.text = p_src
        w.annot_tokens = len(p_toks)
        w.line_tags = [{'annot'} for _ in p_src.split('\n')]
        return w
    m0 = subseq_align(e0_src, e0_toks, p_src, p_toks)       # E0 -> P
    is_code = [False] * len(p_toks)
    for j in m0:
        is_code[j] = True
    w = Woven()
    same = [t.t for t in e_toks] == [t.t for t in e0_toks]
    out = []      # (text, tag, sep)

    def p_sep(j):
        return p_src[p_toks[j - 1].e:p_toks[j].s] if j > 0 else p_src[:p_toks[0].s]

    def e_sep(i):
        s = e_src[e_toks[i - 1].e:e_toks[i].s] if i > 0 else ''
        return s

    if same:
        for j, t in enumerate(p_toks):
            out.append((t.t, 'code' if is_code[j] else 'annot', p_sep(j)))
        tail = p_src[p_toks[-1].e:] if p_toks else p_src
    else:
        w.changed = True
        # E0 -> E
        me = align(e0_src, e0_toks, e_src, e_toks)       # me[i0] = index in E or None (deleted)
        # enforce monotonic
        last = -1
        for i0 in range(len(me)):
            if me[i0] is not None:
                if me[i0] <= last:
                    me[i0] = None
                else:
                    last = me[i0]
        p2e0 = {j: i0 for i0, j in enumerate(m0)}
        next_e = 0       # next E token not yet emitted
        del_pos = None   # output index where the first deleted code token since the last kept code token was
        pending_del = False
        for j, t in enumerate(p_toks):
            if not is_code[j]:
                out.append((t.t, 'annot', p_sep(j)))
                continue
            i0 = p2e0[j]
            ie = me[i0]
            if ie is None:
                w.removed_tokens += 1
                if del_pos is None:
                    del_pos = len(out)
                pending_del = True
                continue
            # emit any new E tokens before ie: a replacement takes the place of the tokens it replaces; a pure
            # insertion follows the previous code token (before the annotations that precede the next code token)
            inserted = False
            if next_e < ie:
                if del_pos is not None:
                    k = del_pos
                else:
                    k = len(out)
                    while k > 0 and out[k - 1][1] == 'annot':
                        k -= 1
                ins = []
                for x in range(next_e, ie):
                    ins.append((e_toks[x].t, 'new', e_sep(x) or ' '))
                    w.new_tokens += 1
                out[k:k] = ins
                inserted = bool(ins) and k == len(out) - len(ins)
            out.append((t.t, 'del' if pending_del else 'code', (e_sep(ie) or ' ') if inserted else p_sep(j)))
            pending_del = False
            next_e = ie + 1
            del_pos = None
        if next_e < len(e_toks):
            for x in range(next_e, len(e_toks)):
                out.append((e_toks[x].t, 'new', e_sep(x) or ' '))
                w.new_tokens += 1
        tail = '\n'
    # new loops (code that is not in the pinned extraction) have no invariant/decreases: let Verus ingest the function
    # anyway (its other obligations then decide) instead of rejecting the unit
    new_loops = [i for i, (t, tag, _) in enumerate(out) if tag == 'new' and t in ('while', 'loop', 'for')]
    if new_loops:
        code_pos = [i for i, (t, tag, _) in enumerate(out) if tag != 'annot']
        ins_at = set()
        for nl in new_loops:
            # innermost enclosing fn: scan code tokens backwards for `fn` whose body contains nl
            k = len([c for c in code_pos if c < nl]) - 1
            depth = 0
            while k >= 0:
                t = out[code_pos[k]][0]
                if t == '}':
                    depth += 1
                elif t == '{':
                    depth -= 1
                elif t == 'fn' and depth < 0:
                    q = k
                    while q > 0 and out[code_pos[q - 1]][0] in ('pub', 'unsafe', 'const'):
                        q -= 1
                    ins_at.add(code_pos[q])
                    break
                k -= 1
        for pos in sorted(ins_at, reverse=True):
            sep = out[pos][2]
            out[pos] = (out[pos][0], out[pos][1], ' ')
            out.insert(pos, ('#[verifier::exec_allows_no_decreases_clause]', 'annot', sep))
        w.notes = 'new loop(s) without contract in %d function(s)' % len(ins_at)
    # statement-level proof hints of the template: `proof { ... }` blocks and `assert ... ;` statements made of annotation
    # tokens only.  They are optional for soundness (a proof script with fewer hints proves less, never more), so the
    # caller may ask for some of them to be left out (`drop_hints`, by ordinal) when a hint no longer fits changed code.
    items = []            # (first index in out, last index in out)
    i = 0
    n_out = len(out)
    while i < n_out:
        t, tag, _ = out[i]
        if tag == 'annot' and t in ('invariant', 'invariant_except_break'):
            # the specification of a loop (`invariant ... decreases ...`): the run of annotation tokens up to the next
            # code token.  When the loop it belonged to was rewritten away, the run is transplanted to wherever the
            # surrounding tokens went (e.g. into an argument list); leaving it out is as sound as leaving out a hint
            # (a loop without invariant proves less, never more).
            j = i
            while j + 1 < n_out and out[j + 1][1] == 'annot' and out[j + 1][0] not in ('proof', 'assert'):
                j += 1
            items.append((i, j))
            i = j + 1
            continue
        if tag == 'annot' and t in ('proof', 'assert'):
            nxt = i + 1
            while nxt < n_out and out[nxt][1] != 'annot':
                nxt += 1
            prv = i - 1
            while prv >= 0 and out[prv][1] != 'annot':
                prv -= 1
            ok_start = (t == 'proof' and nxt < n_out and out[nxt][0] == '{' and not (prv >= 0 and out[prv][0] in ('pub', 'broadcast', 'open', 'closed'))) \
                or (t == 'assert' and nxt < n_out and out[nxt][0] in ('(', 'forall'))
            if ok_start:
                depth = 0
                j = i + 1
                end = None
                saw_open = False
                while j < n_out:
                    tj, tagj, _ = out[j]
                    if tagj == 'annot':
                        if tj in '([{' and len(tj) == 1:
                            depth += 1
                            saw_open = True
                        elif tj in ')]}' and len(tj) == 1:
                            depth -= 1
                            if depth < 0:
                                break
                            if depth == 0 and t == 'proof' and tj == '}':
                                end = j
                                break
                        elif tj == ';' and depth == 0 and t == 'assert':
                            end = j
                            break
                    j += 1
                if end is not None and saw_open:
                    items.append((i, end))
                    i = end + 1
                    continue
        i += 1
    if drop_hints:
        dead = set()
        for k, (a, b) in enumerate(items):
            if k in drop_hints:
                for x in range(a, b + 1):
                    if out[x][1] == 'annot':
                        dead.add(x)
        if dead:
            # keep the line structure: a dropped token leaves only the newlines of its separator behind
            out = [(('' if x in dead else t), tag, (('\n' * sep.count('\n')) if x in dead else sep)) for x, (t, tag, sep) in enumerate(out)]
    # render + line tags
    pieces = []
    line = 0
    tags = [set()]
    prev_text = ''
    for text, tag, sep in out:
        # a transplanted token keeps the separator it had in the template; when the token before it changed (e.g. `!`
        # deleted between `if` and `offsets`) two words may end up glued together: keep them apart
        if not sep and prev_text and text and (prev_text[-1].isalnum() or prev_text[-1] == '_') and (text[0].isalnum() or text[0] == '_'):
            sep = ' '
        if text:
            prev_text = text
        for ch in sep:
            if ch == '\n':
                line += 1
                tags.append(set())
        pieces.append(sep)
        tags[line].add(tag)
        for ch in text:
            if ch == '\n':
                line += 1
                tags.append(set())
                tags[line].add(tag)
        pieces.append(text)
        if tag == 'annot':
            w.annot_tokens += 1
        else:
            w.code_tokens += 1
    w.text = ''.join(pieces) + tail
    w.line_tags = tags
    # fn body openings (computed on the code tokens only, which form plain Rust)
    tok_line = []
    ln = 0
    for text, tag, sep in out:
        ln += sep.count('\n')
        tok_line.append(ln)
        ln += text.count('\n')
    w.hint_items = [(k, tok_line[a], tok_line[b] + out[b][0].count('\n')) for k, (a, b) in enumerate(items)]
    code_idx = [i for i, (t, tag, _) in enumerate(out) if tag != 'annot']
    k = 0
    n = len(code_idx)
    while k < n:
        if out[code_idx[k]][0] == 'fn' and k + 1 < n:
            depth = 0
            j = k + 1
            while j < n:
                t = out[code_idx[j]][0]
                if t in ('(', '['):
                    depth += 1
                elif t in (')', ']'):
                    depth -= 1
                elif depth == 0 and t == ';':
                    break
                elif depth == 0 and t == '{':
                    w.body_open_lines.append(tok_line[code_idx[j]])
                    break
                j += 1
            k = j
        k += 1
    # re-check the guarantee: code tokens of the woven text == tokens of E
    code = [t for (t, tag, _) in out if tag != 'annot']
    if code != [t.t for t in e_toks]:
        # find first difference for the message
        k = 0
        et = [t.t for t in e_toks]
        while k < min(len(code), len(et)) and code[k] == et[k]:
            k += 1
        raise WeaveError('woven code tokens differ from extraction at token %d: %s | %s'
                         % (k, ' '.join(code[max(0, k - 5):k + 5]), ' '.join(et[max(0, k - 5):k + 5])))
    return w


def exec_annotations(e0_src, p_src):
    """lint: annotation tokens must be specification/proof text. Flags `let` bindings inserted at exec level (not
    `let ghost/tracked`, not inside proof{} / by{} / assert / spec or proof fn bodies / closure contracts)."""
    e0_toks, p_toks = lex(e0_src), lex(p_src)
    if not e0_toks:
        return []
    m0 = subseq_align(e0_src, e0_toks, p_src, p_toks)
    code = set(m0)
    bad = []
    stack = []            # per open brace: True if the block is proof/spec context
    proof_fn_pending = False
    for j, t in enumerate(p_toks):
        tx = t.t
        if tx == 'fn' and j not in code:
            # annotation-declared fn (spec/proof/lemma or assumed declaration): its body is not crate code
            proof_fn_pending = True
        if tx == '{':
            prev = p_toks[j - 1].t if j else ''
            ctx = (stack[-1] if stack else False) or prev in ('proof', 'by') or proof_fn_pending or (j not in code and prev in (')', 'implies'))
            if proof_fn_pending:
                proof_fn_pending = False
            stack.append(ctx)
        elif tx == '}':
            if stack:
                stack.pop()
        elif tx == ';' and proof_fn_pending:
            proof_fn_pending = False
        elif tx == 'let' and j not in code:
            nxt = p_toks[j + 1].t if j + 1 < len(p_toks) else ''
            if nxt not in ('ghost', 'tracked') and not (stack and stack[-1]):
                ln = p_src.count('\n', 0, t.s) + 1
                bad.append((ln, ' '.join(x.t for x in p_toks[j:j + 8])))
    return bad


def unbalanced_annotations(e0_src, p_src):
    """diagnostic for template authors: annotation runs that are not bracket-balanced"""
    e0_toks, p_toks = lex(e0_src), lex(p_src)
    m0 = subseq_align(e0_src, e0_toks, p_src, p_toks)
    code = set(m0)
    bad = []
    j = 0
    n = len(p_toks)
    while j < n:
        if j in code:
            j += 1
            continue
        k = j
        depth = 0
        ok = True
        while k < n and k not in code:
            t = p_toks[k].t
            if t in OPEN:
                depth += 1
            elif t in CLOSE:
                depth -= 1
                if depth < 0:
                    ok = False
            k += 1
        if depth != 0:
            ok = False
        run = [t.t for t in p_toks[j:k]]
        # the return-value naming idiom `-> (r: T)` splits into `( r :` ... `)`: tolerated
        if not ok and len(run) == 3 and run[0] == '(' and run[2] == ':':
            ok = True
        if not ok and run[0] == ')':
            d2 = 0
            ok2 = True
            for t in run[1:]:
                if t in OPEN:
                    d2 += 1
                elif t in CLOSE:
                    d2 -= 1
                    if d2 < 0:
                        ok2 = False
            ok = ok2 and d2 == 0
        if not ok:
            ln = p_src.count('\n', 0, p_toks[j].s) + 1
            bad.append((ln, ' '.join(run[:12])))
        j = k
    return bad


if __name__ == '__main__':
    import sys
    e, e0, p = (open(x).read() for x in sys.argv[1:4])
    w = weave(e, e0, p)
    sys.stdout.write(w.text)
    sys.stderr.write('changed=%s code=%d annot=%d new=%d removed=%d\n' % (w.changed, w.code_tokens, w.annot_tokens,
                                                                        w.new_tokens, w.removed_tokens))
    for b in unbalanced_annotations(e0, p):
        sys.stderr.write('unbalanced annotation at template line %d: %s\n' % b)
