"""Minimal Rust lexer used by the extractor and the weaver.

A token is (text, start, end, kind); whitespace and comments are not tokens but
their text can be recovered from the gaps between tokens.  kinds: id, num, str,
chr, life, op.  The same lexer is applied to real Rust source and to the
annotated Verus templates (Verus-only operators just lex as sequences of Rust
operators, identically on both sides of an alignment).
"""
import re

_OPS = ['<<=', '>>=', '...', '..=', '::', '->', '=>', '==', '!=', '<=', '>=',
        '&&', '||', '+=', '-=', '*=', '/=', '%=', '^=', '&=', '|=', '<<', '>>',
        '..']
_OP_RE = '|'.join(re.escape(o) for o in _OPS)

_TOK = re.compile(r'''
   (?P<ws>\s+)
  |(?P<lc>//[^\n]*)
  |(?P<bc>/\*)
  |(?P<rstr>b?r\#*")
  |(?P<str>b?"(?:[^"\\]|\\.)*")
  |(?P<chr>b?'(?:[^'\\\n]|\\(?:x[0-9a-fA-F]{2}|u\{[0-9a-fA-F_]+\}|[^xu]))')
  |(?P<life>'[A-Za-z_][A-Za-z0-9_]*)
  |(?P<num>\d[0-9A-Za-z_]*(?:\.\d[0-9A-Za-z_]*)?)
  |(?P<id>[A-Za-z_][A-Za-z0-9_]*)
  |(?P<op>''' + _OP_RE + r'''|[^\sA-Za-z0-9_])
''', re.X | re.S)


class Tok:
    __slots__ = ('t', 's', 'e', 'k')

    def __init__(self, t, s, e, k):
        self.t, self.s, self.e, self.k = t, s, e, k

    def __repr__(self):
        return 'Tok(%r@%d)' % (self.t, self.s)


class LexError(Exception):
    pass


def lex(src):
    toks = []
    i, n = 0, len(src)
    while i < n:
        m = _TOK.match(src, i)
        if not m:
            raise LexError('cannot lex at %d: %r' % (i, src[i:i + 20]))
        k = m.lastgroup
        if k in ('ws', 'lc'):
            i = m.end()
            continue
        if k == 'bc':
            depth, j = 1, m.end()
            while depth and j < n:
                if src.startswith('/*', j):
                    depth += 1
                    j += 2
                elif src.startswith('*/', j):
                    depth -= 1
                    j += 2
                else:
                    j += 1
            if depth:
                raise LexError('unterminated block comment at %d' % i)
            i = j
            continue
        if k == 'rstr':
            hashes = m.group().count('#')
            close = '"' + '#' * hashes
            j = src.find(close, m.end())
            if j < 0:
                raise LexError('unterminated raw string at %d' % i)
            toks.append(Tok(src[i:j + len(close)], i, j + len(close), 'str'))
            i = j + len(close)
            continue
        toks.append(Tok(m.group(), i, m.end(), k))
        i = m.end()
    return toks


OPEN = {'(': ')', '[': ']', '{': '}'}
CLOSE = {')': '(', ']': '[', '}': '{'}


def match_close(toks, i):
    """toks[i] is an opening bracket; return index of its closing partner."""
    assert toks[i].t in OPEN, toks[i]
    depth = 0
    for j in range(i, len(toks)):
        t = toks[j].t
        if t in OPEN:
            depth += 1
        elif t in CLOSE:
            depth -= 1
            if depth == 0:
                return j
    raise LexError('unbalanced bracket at %d' % toks[i].s)


def texts(toks):
    return [t.t for t in toks]
