"""Static description of what is extracted from /repo and how it is assembled.

PART  = one (source file, extraction options, cfg, template) slice
BUILD = one generated single-file Verus crate: prelude + parts placed in a module
        tree that mirrors the crate (so `use crate::...` lines stay verbatim).
"""
import os

VERIF = os.path.dirname(os.path.dirname(os.path.abspath(__file__)))
REPO = os.environ.get('VERIF_REPO', '/repo')

NO_DEBUG = [['+', 'core', '::', 'fmt', '::', 'Debug'], '', 'X1']

UNION = {'target_arch': ['x86_64', 'aarch64', 'wasm32'], 'target_feature': ['sse2', 'neon', 'simd128'],
         'feature': ['alloc'], 'target_endian': 'little', 'target_pointer_width': '64'}


def part(name, src, mod, **opts):
    cfg = opts.pop('cfg', 'union')
    tmpl = opts.pop('tmpl', name)
    opts.setdefault('drop_items', [])
    opts['drop_items'] = list(opts['drop_items']) + ['mod tests']
    opts.setdefault('rewrites', [])
    opts['rewrites'] = list(opts['rewrites']) + [NO_DEBUG]
    return dict(name=name, src=src, mod=mod, cfg=cfg, tmpl=tmpl, opts=opts)


PARTS = {}


def reg(p):
    PARTS[p['name']] = p
    return p


reg(part('ext', 'src/ext.rs', 'ext'))
reg(part('vector', 'src/vector.rs', 'vector', drop_items=['mod aarch64neon', 'mod wasm_simd128']))
reg(part('generic_memchr', 'src/arch/generic/memchr.rs', 'arch::generic::memchr', deref_idents=['ptr']))
reg(part('sse2_memchr', 'src/arch/x86_64/sse2/memchr.rs', 'arch::x86_64::sse2::memchr'))

BUILDS = {
    'main': dict(parts=['ext', 'vector', 'generic_memchr'],
                 prelude=['prelude/vbase.vrs']),
}

CONFIGS_EXTRA = {'union': UNION}
