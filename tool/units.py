"""Static description of what is extracted from /repo and how it is assembled.

PART  = one (source file, extraction options, cfg, template) slice
BUILD = one generated single-file Verus crate: prelude + parts placed in a module
        tree that mirrors the crate (so `use crate::...` lines stay verbatim).
"""
import os

VERIF = os.path.dirname(os.path.dirname(os.path.abspath(__file__)))
REPO = os.environ.get('VERIF_REPO', '/repo')

NO_DEBUG = [['+', 'core', '::', 'fmt', '::', 'Debug'], '', 'X1']

# X16 (DESIGN 2.1, C17): every call path of a std heap-allocating constructor is redirected to the prelude wrapper that
# carries the allocation permission `requires may_alloc()` (same value; functional spec assumed there).  Longest first.
def _x16():
    out = []
    for pre in (['alloc', '::', 'boxed', '::'], ['std', '::', 'boxed', '::'], []):
        out.append([pre + ['Box', '::', 'from'], 'crate::vbase::alloc_box_from', 'X16'])
        out.append([pre + ['Box', '::', 'new'], 'crate::vbase::alloc_box_new', 'X16'])
    for pre in (['alloc', '::', 'vec', '::'], ['std', '::', 'vec', '::'], []):
        out.append([pre + ['Vec', '::', 'with_capacity'], 'crate::vbase::alloc_vec_with_capacity', 'X16'])
        out.append([pre + ['Vec', '::', 'new'], 'crate::vbase::alloc_vec_new', 'X16'])
    out.append([['.', 'to_vec', '('], '.to_vec__alloc(', 'X16'])
    return out


X16 = _x16()

X8_RK = [[['Some', '(', '&', 'first_byte', ')', '=>', 'first_byte'], 'Some(first_byte) => *first_byte', 'X8'],
         [['Some', '(', '&', 'last_byte', ')', '=>', 'last_byte'], 'Some(last_byte) => *last_byte', 'X8']]

UNION = {'target_arch': ['x86_64', 'aarch64', 'wasm32'], 'target_feature': ['sse2', 'neon', 'simd128'],
         'feature': ['alloc'], 'target_endian': 'little', 'target_pointer_width': '64'}


def part(name, src, mod, **opts):
    cfg = opts.pop('cfg', 'union')
    tmpl = opts.pop('tmpl', name)
    opts.setdefault('drop_items', [])
    opts['drop_items'] = list(opts['drop_items']) + ['mod tests']
    opts.setdefault('rewrites', [])
    opts['rewrites'] = list(opts['rewrites']) + [NO_DEBUG] + X16
    return dict(name=name, src=src, mod=mod, cfg=cfg, tmpl=tmpl, opts=opts)


PARTS = {}


def reg(p):
    PARTS[p['name']] = p
    return p


reg(part('ext', 'src/ext.rs', 'ext'))
reg(part('vector', 'src/vector.rs', 'vector', drop_items=['mod aarch64neon', 'mod wasm_simd128']))
reg(part('generic_memchr', 'src/arch/generic/memchr.rs', 'arch::generic::memchr', deref_idents=['ptr']))
reg(part('sse2_memchr', 'src/arch/x86_64/sse2/memchr.rs', 'arch::x86_64::sse2::memchr'))
reg(part('avx2_memchr', 'src/arch/x86_64/avx2/memchr.rs', 'arch::x86_64::avx2::memchr'))
reg(part('all_memchr', 'src/arch/all/memchr.rs', 'arch::all::memchr', deref_idents=['ptr']))
reg(part('all_mod', 'src/arch/all/mod.rs', 'arch::all'))
reg(part('all_rabinkarp', 'src/arch/all/rabinkarp.rs', 'arch::all::rabinkarp', x14=True, rewrites=X8_RK,
         keep_derives=['Clone', 'Copy', 'PartialEq', 'Eq', 'Default']))
# X8 (DESIGN 2.1, ref pattern in a match arm): `Some(&first_byte) => first_byte` -> `Some(first_byte) => *first_byte`
reg(part('all_twoway', 'src/arch/all/twoway.rs', 'arch::all::twoway', x14=True,
         rewrites=[[['Some', '(', '&', 'first_byte', ')', '=>', 'first_byte'], 'Some(first_byte) => *first_byte', 'X8']]))
# X8 (ref pattern in closure parameter, DESIGN 2.1): `|&b| b != self.byte2` -> `|b| *b != self.byte2`
X8_PP = [[['|', '&', 'b', '|', 'b', '!=', 'self', '.', 'byte2'], '|b| *b != self.byte2', 'X8']]
reg(part('all_packedpair', 'src/arch/all/packedpair/mod.rs', 'arch::all::packedpair', x14=True, rewrites=X8_PP))
reg(part('all_default_rank', 'src/arch/all/packedpair/default_rank.rs', 'arch::all::packedpair::default_rank'))
reg(part('generic_packedpair', 'src/arch/generic/packedpair.rs', 'arch::generic::packedpair'))
reg(part('sse2_packedpair', 'src/arch/x86_64/sse2/packedpair.rs', 'arch::x86_64::sse2::packedpair'))
reg(part('avx2_packedpair', 'src/arch/x86_64/avx2/packedpair.rs', 'arch::x86_64::avx2::packedpair'))
# S variant (release semantics, type invariants only; DESIGN 2.1): same sources, debug_assert dropped, assert = panic
S_OPTS = dict(debug_asserts='drop', asserts='panic')
reg(part('s_vector', 'src/vector.rs', 'vector', drop_items=['mod aarch64neon', 'mod wasm_simd128'], **S_OPTS))
reg(part('s_all_mod', 'src/arch/all/mod.rs', 'arch::all', **S_OPTS))
reg(part('s_all_packedpair', 'src/arch/all/packedpair/mod.rs', 'arch::all::packedpair', x14=True, rewrites=X8_PP, **S_OPTS))
reg(part('s_generic_packedpair', 'src/arch/generic/packedpair.rs', 'arch::generic::packedpair', **S_OPTS))
reg(part('s_sse2_packedpair', 'src/arch/x86_64/sse2/packedpair.rs', 'arch::x86_64::sse2::packedpair', **S_OPTS))
reg(part('s_avx2_packedpair', 'src/arch/x86_64/avx2/packedpair.rs', 'arch::x86_64::avx2::packedpair', **S_OPTS))
X17 = [[['core', '::', 'iter', '::', 'Rev'], 'crate::vbase::revx::{Rev, RevExt}', 'X17']]
reg(part('memchr_top', 'src/memchr.rs', 'memchr', cfg='x86_64',
         # X17: the three `memrchrN_iter` front-ends are `Iterator::rev()` of the double-ended iterators; std's `Rev`
         # adapter is redirected to the prelude's specification of it (vbase::revx: `Rev { iter }`, `rev()` wraps)
         rewrites=X17))
# ifunc_residue: hash of the part of `unsafe_ifunc!` that rule X6 replaces (assumption A2), see xform.ifunc_residue_sha
reg(part('x86_64_memchr', 'src/arch/x86_64/memchr.rs', 'arch::x86_64::memchr', ifunc_residue='b768f0ddac754a21'))
# ---- X14 variants (iterator-adapter loops desugared to index loops): constructors brought under contract
def clone_part(new, old, **extra):
    p = dict(PARTS[old])
    p = dict(p, name=new, tmpl=new, opts=dict(p['opts'], **extra))
    PARTS[new] = p
    return p


reg(part('all_shiftor', 'src/arch/all/shiftor.rs', 'arch::all::shiftor', x14=True))

# ---- aarch64 / wasm32 (text the host never compiles): intrinsics paths are redirected to the trusted ISA prelude
ISA = [[['core', '::', 'arch', '::', 'aarch64'], 'crate::isa::aarch64', 'X13'], [['core', '::', 'arch', '::', 'wasm32'], 'crate::isa::wasm32', 'X13']]
AARCH64 = dict(target_arch='aarch64', target_feature=['neon'], feature=['alloc'], target_endian='little', target_pointer_width='64')
WASM32 = dict(target_arch='wasm32', target_feature=['simd128'], feature=['alloc'], target_endian='little', target_pointer_width='64')
reg(part('vector_neon', 'src/vector.rs', 'vector', only_items=['mod aarch64neon'], rewrites=ISA))
reg(part('vector_wasm', 'src/vector.rs', 'vector', only_items=['mod wasm_simd128'], rewrites=ISA, deref_idents=['data']))
reg(part('neon_memchr', 'src/arch/aarch64/neon/memchr.rs', 'arch::aarch64::neon::memchr', rewrites=ISA))
reg(part('simd128_memchr', 'src/arch/wasm32/simd128/memchr.rs', 'arch::wasm32::simd128::memchr', rewrites=ISA))
reg(part('neon_packedpair', 'src/arch/aarch64/neon/packedpair.rs', 'arch::aarch64::neon::packedpair', rewrites=ISA))
reg(part('simd128_packedpair', 'src/arch/wasm32/simd128/packedpair.rs', 'arch::wasm32::simd128::packedpair', rewrites=ISA))
reg(part('aarch64_memchr', 'src/arch/aarch64/memchr.rs', 'arch::aarch64::memchr', cfg='aarch64', simple_macros=['defraw']))
reg(part('wasm32_memchr', 'src/arch/wasm32/memchr.rs', 'arch::wasm32::memchr', cfg='wasm32', simple_macros=['defraw']))
reg(part('memchr_top_aarch64', 'src/memchr.rs', 'memchr', cfg='aarch64',
         rewrites=X17))
reg(part('memchr_top_wasm32', 'src/memchr.rs', 'memchr', cfg='wasm32',
         rewrites=X17))
reg(part('memchr_top_other', 'src/memchr.rs', 'memchr', cfg='other',
         rewrites=X17))
reg(part('memmem_mod', 'src/memmem/mod.rs', 'memmem', keep_derives=['Clone', 'Copy', 'Default']))
reg(part('memmem_searcher', 'src/memmem/searcher.rs', 'memmem::searcher',
         only_items=['struct SearcherRev', 'enum SearcherRevKind', 'impl SearcherRev', 'enum PrefilterConfig',
                     'impl Default for PrefilterConfig', 'impl PrefilterConfig'],
         # derive(Clone) on the non-Copy SearcherRev/SearcherRevKind gets no Verus spec; the template declares the
         # Clone impls with their (assumed, structural) contract instead
         keep_derives=['Copy']))
reg(part('cow', 'src/cow.rs', 'cow'))
# the non-union, non-fn-pointer slice of the meta searcher that Two-Way depends on
# stubs: assumed contracts standing in for modules that are verified in another build
reg(part('stub_root', None, ''))
# crate-root re-exports of the names that exist in the extracted `memchr` module (lib.rs also re-exports the three
# memrchrN_iter adapters, which are not extracted)
reg(part('root_reexport', None, ''))
# the union-reading glue of the meta searcher (everything except constructing / calling through the fn pointers)
# memmem_pre with the `kind` union field of Prefilter kept (for builds that contain memmem_glue)
# the WHOLE forward meta searcher with the fn pointers defunctionalised (X15): Searcher::{new,twoway,find},
# Prefilter::{fallback,sse2,avx2,find,find_simple}, the kind functions, PrefilterState, Pre, do_packed_search
X15 = [dict(type='SearcherKindFn', prefix='searcher_kind_', impl='impl Searcher'),
       dict(type='PrefilterKindFn', prefix='prefilter_kind_', impl='impl Prefilter')]
reg(part('memmem_meta', 'src/memmem/searcher.rs', 'memmem::searcher', cfg='x86_64', defunc=X15,
         drop_items=['struct SearcherRev', 'enum SearcherRevKind', 'impl SearcherRev', 'enum PrefilterConfig',
                     'impl Default for PrefilterConfig', 'impl PrefilterConfig',
                     'use crate::arch::aarch64::neon::packedpairasneon', 'use crate::arch::wasm32::simd128::packedpairassimd128'],
         drop_fields=['SearcherKind.simd128', 'SearcherKind.neon', 'PrefilterKind.simd128', 'PrefilterKind.neon']))
# the meta searcher under the other targets' cfg (their arms of Searcher::new and their kind functions)
OTHER = dict(target_arch='riscv64', target_feature=[], feature=['alloc'], target_endian='little', target_pointer_width='64')
META_DROP = ['struct SearcherRev', 'enum SearcherRevKind', 'impl SearcherRev', 'enum PrefilterConfig',
             'impl Default for PrefilterConfig', 'impl PrefilterConfig']
reg(part('memmem_meta_aarch64', 'src/memmem/searcher.rs', 'memmem::searcher', cfg='aarch64', defunc=X15, rewrites=ISA,
         drop_items=META_DROP, drop_fields=['SearcherKind.simd128', 'SearcherKind.sse2', 'SearcherKind.avx2',
                                            'PrefilterKind.simd128', 'PrefilterKind.sse2', 'PrefilterKind.avx2']))
reg(part('memmem_meta_wasm32', 'src/memmem/searcher.rs', 'memmem::searcher', cfg='wasm32', defunc=X15, rewrites=ISA,
         drop_items=META_DROP, drop_fields=['SearcherKind.neon', 'SearcherKind.sse2', 'SearcherKind.avx2',
                                            'PrefilterKind.neon', 'PrefilterKind.sse2', 'PrefilterKind.avx2']))
reg(part('memmem_meta_other', 'src/memmem/searcher.rs', 'memmem::searcher', cfg='other', defunc=X15,
         drop_items=META_DROP, drop_fields=['SearcherKind.neon', 'SearcherKind.simd128', 'SearcherKind.sse2', 'SearcherKind.avx2',
                                            'PrefilterKind.neon', 'PrefilterKind.simd128', 'PrefilterKind.sse2', 'PrefilterKind.avx2']))

clone_part('all_memchr_32', 'all_memchr')

P0 = ['prelude/vbase.vrs']
BASE = ['ext', 'vector', 'generic_memchr']
BUILDS = {
    # F variant: the whole crate (x86_64 wiring) in one unit: byte searchers, substring engines, the meta searcher with
    # its fn pointers defunctionalised (X15), the memmem front end, cow, Shift-Or
    'main': dict(parts=['ext', 'vector', 'generic_memchr', 'sse2_memchr', 'avx2_memchr', 'all_memchr', 'x86_64_memchr',
                        'memchr_top', 'root_reexport', 'all_mod', 'all_rabinkarp', 'all_packedpair', 'all_default_rank',
                        'generic_packedpair', 'sse2_packedpair', 'avx2_packedpair', 'all_twoway', 'all_shiftor', 'cow',
                        'memmem_mod', 'memmem_meta', 'memmem_searcher'],
                 prelude=P0 + ['prelude/x_eqrk.vrs', 'prelude/x_pp.vrs', 'prelude/x_tw.vrs', 'prelude/x_twc.vrs', 'prelude/x_so.vrs',
                               'prelude/x_memmem.vrs', 'prelude/x_meta.vrs', 'prelude/hist.vrs']),
    # other targets (text the x86_64 host never compiles)
    # 32-bit targets: the same portable wiring with a 4-byte usize (the SWAR chunk is 4 bytes wide)
    'aarch64': dict(parts=['ext', 'vector', 'vector_neon', 'generic_memchr', 'all_memchr', 'neon_memchr', 'aarch64_memchr',
                                'memchr_top_aarch64', 'root_reexport', 'all_mod', 'all_rabinkarp', 'all_packedpair', 'all_default_rank',
                                'generic_packedpair', 'neon_packedpair', 'all_twoway', 'all_shiftor', 'cow', 'memmem_mod',
                                'memmem_meta_aarch64', 'memmem_searcher'],
                         prelude=P0 + ['prelude/isa.vrs', 'prelude/x_eqrk.vrs', 'prelude/x_pp.vrs', 'prelude/x_tw.vrs', 'prelude/x_twc.vrs',
                                       'prelude/x_so.vrs', 'prelude/x_memmem.vrs', 'prelude/x_meta.vrs']),
    'wasm32': dict(parts=['ext', 'vector', 'vector_wasm', 'generic_memchr', 'all_memchr', 'simd128_memchr', 'wasm32_memchr',
                               'memchr_top_wasm32', 'root_reexport', 'all_mod', 'all_rabinkarp', 'all_packedpair', 'all_default_rank',
                               'generic_packedpair', 'simd128_packedpair', 'all_twoway', 'all_shiftor', 'cow', 'memmem_mod',
                               'memmem_meta_wasm32', 'memmem_searcher'],
                        prelude=P0 + ['prelude/isa.vrs', 'prelude/x_eqrk.vrs', 'prelude/x_pp.vrs', 'prelude/x_tw.vrs', 'prelude/x_twc.vrs',
                                      'prelude/x_so.vrs', 'prelude/x_memmem.vrs', 'prelude/x_meta.vrs']),
    'other': dict(parts=['ext', 'vector', 'generic_memchr', 'all_memchr', 'memchr_top_other', 'root_reexport', 'all_mod',
                              'all_rabinkarp', 'all_packedpair', 'all_default_rank', 'all_twoway', 'all_shiftor', 'cow', 'memmem_mod',
                              'memmem_meta_other', 'memmem_searcher'],
                       prelude=P0 + ['prelude/x_eqrk.vrs', 'prelude/x_pp.vrs', 'prelude/x_tw.vrs', 'prelude/x_twc.vrs', 'prelude/x_so.vrs',
                                     'prelude/x_memmem.vrs', 'prelude/x_meta.vrs']),
    'other32': dict(parts=['ext', 'vector', 'generic_memchr', 'all_memchr_32', 'memchr_top_other', 'root_reexport', 'all_mod',
                                'all_rabinkarp', 'all_packedpair', 'all_default_rank', 'all_twoway', 'all_shiftor', 'cow', 'memmem_mod',
                                'memmem_meta_other', 'memmem_searcher'],
                         prelude=P0 + ['prelude/x_eqrk.vrs', 'prelude/x_pp.vrs', 'prelude/x_tw.vrs', 'prelude/x_twc.vrs', 'prelude/x_so.vrs',
                                       'prelude/x_memmem.vrs', 'prelude/x_meta.vrs'], usize_bytes=4),
    # S variant (release semantics, type invariants only): decides C05 for the packed-pair finders
    'safe': dict(parts=['ext', 'stub_root', 's_vector', 's_all_mod', 's_all_packedpair', 'all_default_rank',
                        's_generic_packedpair', 's_sse2_packedpair', 's_avx2_packedpair'],
                 prelude=P0 + ['prelude/x_eqrk.vrs', 'prelude/x_pp.vrs']),
    # development builds (small dependency closures for template work)
    'dev_generic': dict(parts=BASE, prelude=P0),
    'dev_eq': dict(parts=['ext', 'vector', 'all_mod'], prelude=P0),
    'dev_x86': dict(parts=BASE + ['sse2_memchr', 'avx2_memchr'], prelude=P0),
    'dev_swar': dict(parts=BASE + ['all_memchr'], prelude=P0),
    'dev_eqrk': dict(parts=['ext', 'vector', 'all_mod', 'all_rabinkarp'], prelude=P0 + ['prelude/x_eqrk.vrs']),
    'dev_pp': dict(parts=BASE + ['stub_root', 'all_mod', 'all_packedpair', 'all_default_rank', 'generic_packedpair',
                                 'sse2_packedpair', 'avx2_packedpair'], prelude=P0 + ['prelude/x_eqrk.vrs', 'prelude/x_pp.vrs']),
    'dev_so': dict(parts=['ext', 'vector', 'all_mod', 'all_shiftor'], prelude=P0 + ['prelude/x_so.vrs']),
}

CONFIGS_EXTRA = {'union': UNION, 'aarch64': AARCH64, 'wasm32': WASM32, 'other': OTHER}
