#!/usr/bin/env python3
"""Run the registered checks against every kept seeded change (apply, check, undo) and record which check catches it.
usage: tool/seeded_eval.py [id ...]      (development / regression helper; never commits anything to /repo)"""
import json, os, re, subprocess, sys
V = '/verif'
ids = sys.argv[1:] or sorted(os.listdir(os.path.join(V, 'seeded')))
rows = []
for sid in ids:
    d = os.path.join(V, 'seeded', sid)
    mp = os.path.join(d, 'meta.json')
    if not os.path.exists(mp):
        continue
    meta = json.load(open(mp))
    pid = meta['breaks_property']
    subprocess.run(['git', '-C', '/repo', 'checkout', '--', '.'])
    if subprocess.run(['git', '-C', '/repo', 'apply', os.path.join(d, 'patch.diff')]).returncode != 0:
        print(sid, 'PATCH DOES NOT APPLY')
        continue
    try:
        res = {}
        for mode, env in (('verus+replayer', dict(VERIF_NO_KANI='1', VERIF_NO_CANARY='1')), ('with-kani', dict(VERIF_NO_CANARY='1'))):
            e = dict(os.environ, VERIF_WORK='/tmp/vwork_seeded', VERIF_EVIDENCE_DIR='/tmp/vwork_seeded/evidence', **env)
            pr = subprocess.run(['./check', pid], cwd=V, capture_output=True, text=True, env=e)
            lines = [l for l in pr.stdout.split('\n') if re.match(r'(VIOLATION|UNDECIDED|OK|obligation failed)', l)]
            res[mode] = dict(exit=pr.returncode, lines=[l[:260] for l in lines[:4]])
            if pr.returncode == 1:
                break
    finally:
        subprocess.run(['git', '-C', '/repo', 'checkout', '--', '.'])
    caught = [m for m, r in res.items() if r['exit'] == 1]
    meta['evaluation'] = dict(check='./check %s' % pid, result=res, caught=bool(caught), caught_in_mode=caught[0] if caught else None)
    json.dump(meta, open(mp, 'w'), indent=1)
    first = ''
    for m in res.values():
        for l in m['lines']:
            if l.startswith('obligation failed') or l.startswith('VIOLATION'):
                first = l
                break
        if first:
            break
    rows.append((sid, pid, 'CAUGHT (%s)' % caught[0] if caught else 'MISSED (exit %s)' % [r['exit'] for r in res.values()], first[:200]))
    print(rows[-1], flush=True)
