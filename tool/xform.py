"""Mechanical extraction of real Rust source text into the Verus-ingestible subset.

extract(src, cfg, opts) -> (text, fired) where `fired` is the multiset of X-rules
that fired.  Everything here is a token-level rewrite listed in DESIGN.md §2.1
(X1..X12).  Unknown constructs are left verbatim (Verus then rejects them, which
the driver reports as UNDECIDED, never as a violation).
"""
import re
from collections import Counter
from rlex import lex, match_close, OPEN, CLOSE, LexError


class ExtractError(Exception):
    pass


# ---------------------------------------------------------------- cfg predicates
def _parse_pred(toks, i):
    """parse a cfg predicate starting at toks[i]; returns (ast, next_i)"""
    t = toks[i]
    if t.k != 'id':
        raise ExtractError('cfg predicate: unexpected %r' % t.t)
    name = t.t
    i += 1
    if i < len(toks) and toks[i].t == '(':
        close = match_close(toks, i)
        args = []
        j = i + 1
        while j < close:
            a, j = _parse_pred(toks, j)
            args.append(a)
            if j < close and toks[j].t == ',':
                j += 1
        return (name, args), close + 1
    if i < len(toks) and toks[i].t == '=':
        v = toks[i + 1].t
        return ('=', name, v.strip('"')), i + 2
    return ('flag', name), i


def eval_pred(p, cfg):
    if p[0] == 'flag':
        return bool(cfg.get(p[1], False))
    if p[0] == '=':
        v = cfg.get(p[1])
        if isinstance(v, (list, set, tuple)):
            return p[2] in v
        return v == p[2]
    name, args = p
    if name == 'all':
        return all(eval_pred(a, cfg) for a in args)
    if name == 'any':
        return any(eval_pred(a, cfg) for a in args)
    if name == 'not':
        return not eval_pred(args[0], cfg)
    raise ExtractError('cfg predicate: unknown operator %s' % name)


# named configurations (X5)
CONFIGS = {
    'x86_64': {'target_arch': 'x86_64', 'target_feature': ['sse2'], 'feature': ['std', 'alloc'],
               'target_endian': 'little', 'target_pointer_width': '64'},
    'x86_64+avx2': {'target_arch': 'x86_64', 'target_feature': ['sse2', 'avx2'], 'feature': ['std', 'alloc'],
                    'target_endian': 'little', 'target_pointer_width': '64'},
    'x86_64-nostd': {'target_arch': 'x86_64', 'target_feature': ['sse2'], 'feature': [],
                     'target_endian': 'little', 'target_pointer_width': '64'},
    'aarch64': {'target_arch': 'aarch64', 'target_feature': ['neon'], 'feature': ['std', 'alloc'],
                'target_endian': 'little', 'target_pointer_width': '64'},
    'wasm32': {'target_arch': 'wasm32', 'target_feature': ['simd128'], 'feature': ['std', 'alloc'],
               'target_endian': 'little', 'target_pointer_width': '32'},
    'other': {'target_arch': 'riscv64', 'target_feature': [], 'feature': ['std', 'alloc'],
              'target_endian': 'little', 'target_pointer_width': '64'},
}

DROP_ATTRS = {'inline', 'cold', 'target_feature', 'must_use', 'allow', 'deprecated', 'doc', 'deny', 'warn',
              'rustfmt', 'non_exhaustive', 'track_caller'}
KEEP_DERIVES_DEFAULT = ('Clone', 'Copy')
LOG_MACROS = {'trace', 'debug', 'log', 'eprintln'}
ASSERT_MACROS = {'debug_assert', 'debug_assert_eq', 'debug_assert_ne', 'assert', 'assert_eq', 'assert_ne'}
ITEM_KW = {'fn', 'struct', 'enum', 'union', 'impl', 'trait', 'mod'}
SEMI_KW = {'use', 'type', 'static'}
MODIFIERS = {'unsafe', 'async', 'default'}


def _split_args(toks, lo, hi):
    """split toks[lo:hi] at top-level commas -> list of (lo,hi)"""
    out, depth, start = [], 0, lo
    for j in range(lo, hi):
        t = toks[j].t
        if t in OPEN:
            depth += 1
        elif t in CLOSE:
            depth -= 1
        elif t == ',' and depth == 0:
            out.append((start, j))
            start = j + 1
    if start < hi:
        out.append((start, hi))
    return out


def _join_tokens(ts):
    out = ''
    for t in ts:
        if out and not (t in (',', ';', ')', '.', '::', '(') or out.endswith(('(', '.', '::', '&', '*')) and t != '{'):
            out += ' '
        elif out and t == '(' and not out[-1].isalnum() and out[-1] != '_':
            out += ' ' if out[-1] not in '(.:' else ''
        out += t
    return out


class Extractor:
    def __init__(self, src, cfg, opts=None):
        self.src = src
        self.cfg = cfg
        self.opts = opts or {}
        self.toks = lex(src)
        self.out = []          # list of (text, srcpos or None, layout hint pos or None, inline flag)
        self.inline = False
        self._no_item_at = -1
        self.ifunc_body = None
        self.simple_macros = set(self.opts.get('simple_macros', []))
        self.macro_defs = {}
        self.x2 = self.opts.get('x2', True)
        self.x14 = self.opts.get('x14', False)
        self.x14_n = 0
        self.defunc = self.opts.get('defunc', [])     # X15: [{type, prefix, impl}]
        self._defunc_fns = None
        self.fired = Counter()
        self.keep_derives = tuple(self.opts.get('keep_derives', KEEP_DERIVES_DEFAULT))
        self.debug_asserts = self.opts.get('debug_asserts', 'prove')   # 'prove' (F) | 'drop' (S)
        self.asserts = self.opts.get('asserts', 'prove')                 # 'prove' (F) | 'panic' (S)
        self.deref_idents = set(self.opts.get('deref_idents', []))
        self.inherent_traits = set(self.opts.get('inherent_traits',
                                                 ['Iterator', 'DoubleEndedIterator', 'FusedIterator']))
        self.drop_impl_traits = set(self.opts.get('drop_impl_traits', ['Debug', 'Send', 'Sync']))
        self.drop_items = set(self.opts.get('drop_items', []))       # e.g. "fn foo", "impl Foo", "mod tests"
        self.only_items = self.opts.get('only_items')                 # top-level whitelist (names) or None
        self.drop_fields = set(self.opts.get('drop_fields', []))     # X9: "Struct.field"
        self.rewrites = self.opts.get('rewrites', [])                 # list of (from_tokens, to_text, rule)

    # -------------------------------------------------------------- output
    def emit_tok(self, i):
        t = self.toks[i]
        self.out.append((t.t, t.s, None, self.inline))

    def emit_syn(self, text, hint=None):
        self.out.append((text, None, hint, self.inline))

    # -------------------------------------------------------------- structure helpers
    def thing_end(self, i, hi):
        """index one past the end of the item / statement / arm starting at toks[i]"""
        toks = self.toks
        j = i
        if toks[j].t == 'pub':
            j += 1
            if toks[j].t == '(':
                j = match_close(toks, j) + 1
        while toks[j].t in MODIFIERS or (toks[j].t == 'const' and toks[j + 1].t in ('fn', 'unsafe', 'extern')) \
                or (toks[j].t == 'extern' and toks[j + 1].k == 'str'):
            j += 2 if toks[j].t == 'extern' else 1
        kw = toks[j].t
        if kw == '{':
            return match_close(toks, j) + 1
        if kw in SEMI_KW or kw == 'const' or (kw == 'extern' and toks[j + 1].t == 'crate'):
            return self._scan_to(j, hi, {';'}) + 1
        if kw in ITEM_KW:
            depth = 0
            k = j
            while k < hi:
                t = toks[k].t
                if t in ('(', '['):
                    depth += 1
                elif t in (')', ']'):
                    depth -= 1
                elif depth == 0 and t == '{':
                    return match_close(toks, k) + 1
                elif depth == 0 and t == ';':
                    return k + 1
                k += 1
            raise ExtractError('item without end at %d' % toks[i].s)
        if toks[j].k == 'id' and j + 1 < hi and toks[j + 1].t == '!':
            # macro invocation in item/statement position
            k = j + 2
            if toks[k].k == 'id':      # macro_rules! name
                k += 1
            c = match_close(toks, k)
            if c + 1 < hi and toks[c + 1].t == ';':
                return c + 2
            return c + 1
        # statement, field, variant or match arm: up to ',' or ';' at depth 0 (inclusive)
        depth = 0
        k = j
        while k < hi:
            t = toks[k].t
            if t in OPEN:
                depth += 1
            elif t in CLOSE:
                if depth == 0:
                    return k
                depth -= 1
                if depth == 0 and t == '}' and k + 1 < hi and toks[k + 1].t not in (',', ';', '.', '?'):
                    # block-like expression statement / arm body without trailing comma
                    pass
            elif depth == 0 and t in (',', ';'):
                return k + 1
            k += 1
        return hi

    def _scan_to(self, j, hi, stops):
        depth = 0
        while j < hi:
            t = self.toks[j].t
            if t in OPEN:
                depth += 1
            elif t in CLOSE:
                depth -= 1
            elif depth == 0 and t in stops:
                return j
            j += 1
        raise ExtractError('scan ran off the end')

    def item_name(self, i, hi):
        """short key for an item starting at toks[i] (after attributes): 'fn x', 'impl T', 'impl Tr for T', 'mod m'"""
        toks = self.toks
        j = i
        if toks[j].t == 'pub':
            j += 1
            if toks[j].t == '(':
                j = match_close(toks, j) + 1
        while toks[j].t in MODIFIERS or (toks[j].t == 'const' and toks[j + 1].t in ('fn', 'unsafe', 'extern')):
            j += 1
        kw = toks[j].t
        if kw == 'extern' and toks[j + 1].t == 'crate':
            return 'extern crate ' + toks[j + 2].t
        if kw == 'use':
            k = j + 1
            parts = []
            while k < hi and toks[k].t != ';':
                parts.append(toks[k].t)
                k += 1
            return 'use ' + ''.join(parts)
        if kw in ('fn', 'struct', 'enum', 'union', 'trait', 'mod', 'const', 'static', 'type'):
            return kw + ' ' + toks[j + 1].t
        if kw == 'impl':
            k = j + 1
            if toks[k].t == '<':       # skip generics
                depth = 0
                while True:
                    if toks[k].t == '<':
                        depth += 1
                    elif toks[k].t == '>':
                        depth -= 1
                    elif toks[k].t == '>>':
                        depth -= 2
                    k += 1
                    if depth <= 0:
                        break
            names = []
            while toks[k].t not in ('{', 'where'):
                names.append(toks[k].t)
                k += 1
            s = ' '.join(names)
            s = re.sub(r'\s*<[^{]*$', '', s) if ' for ' not in s else s
            # normalise: "core :: fmt :: Debug for One < V >" -> "Debug for One"
            if ' for ' in s:
                tr, ty = s.split(' for ', 1)
                tr = tr.split('::')[-1].strip().split('<')[0].strip()
                ty = ty.strip().split('<')[0].strip().split('::')[-1].strip()
                return 'impl %s for %s' % (tr, ty)
            return 'impl ' + s.split('<')[0].strip().split('::')[-1].strip()
        if toks[j].k == 'id' and toks[j + 1].t == '!':
            if toks[j].t == 'macro_rules':
                return 'macro ' + toks[j + 2].t
            return 'macrocall ' + toks[j].t
        return None

    # -------------------------------------------------------------- main walk
    def run(self):
        self.walk(0, len(self.toks), top=True)
        return self.render(), self.fired

    def walk(self, lo, hi, top=False, ctx=None):
        toks = self.toks
        i = lo
        depth = 0
        while i < hi:
            t = toks[i]
            # ---- attributes
            if t.t == '#' and i + 1 < hi and (toks[i + 1].t == '[' or (toks[i + 1].t == '!' and toks[i + 2].t == '[')):
                i = self.handle_attrs(i, hi, ctx)
                continue
            # ---- item-level handling (only at positions where an item can start)
            if depth == 0 and i != self._no_item_at and t.k == 'id' and (t.t in ITEM_KW or t.t in ('pub', 'unsafe', 'const', 'static', 'type', 'macro_rules', 'use', 'extern') or
                                (i + 1 < hi and toks[i + 1].t == '!')) and self._at_item_start(i, lo):
                nm = self.item_name(i, hi)
                if nm is not None:
                    full = (ctx + '::' + nm) if ctx else nm
                    if self.will_drop(nm, ctx):
                        self.fired['X1'] += 1
                        self.note_dropped(nm, ctx, i, self.thing_end(i, hi))
                        i = self.thing_end(i, hi)
                        continue
                    if nm.startswith('macro ') and nm[6:] in self.simple_macros:
                        e_ = self.thing_end(i, hi)
                        self.macro_defs[nm[6:]] = (i, e_)
                        self.fired['X6'] += 1
                        i = e_
                        continue
                    dfn = [d for d in self.defunc if nm == 'type ' + d['type']]
                    if dfn:
                        # X15 defunctionalisation: the fn-pointer type becomes an enum of the fn items of this file
                        names = self.defunc_fns(dfn[0])
                        self.emit_syn('#[derive(Clone, Copy)] pub enum %s { %s }' % (dfn[0]['type'], ', '.join(names)), toks[i].s)
                        self.fired['X15'] += 1
                        i = self.thing_end(i, hi)
                        continue
                    if nm == 'macro unsafe_ifunc':
                        e_ = self.thing_end(i, hi)
                        self.ifunc_body = (i, e_)
                        self.fired['X6'] += 1
                        self.fired['X6-residue:' + self.ifunc_residue_sha(i, e_)] += 1
                        i = e_
                        continue
                    if nm.startswith('mod ') and toks[self.thing_end(i, hi) - 1].t == ';':
                        # out-of-line module declaration: the generator re-creates the module tree
                        self.fired['X0-modtree'] += 1
                        i = self.thing_end(i, hi)
                        continue
                    start = i
                    kind = nm.split(' ')[0]
                    inner = (ctx or '').split('::')[-1]
                    in_trait = inner.startswith('trait ') or (inner.startswith('impl ') and ' for ' in inner)
                    if self.x2 and kind in ('fn', 'struct', 'enum', 'union', 'trait', 'mod', 'const', 'static', 'type') \
                            and not in_trait and not self._in_fn_body(ctx):
                        if toks[i].t == 'pub':
                            self.emit_tok(i)
                            start = i + 1
                            if toks[start].t == '(':
                                start = match_close(toks, start) + 1
                                self.fired['X2'] += 1
                        else:
                            self.emit_syn('pub', toks[i].s)
                            self.fired['X2'] += 1
                    r = self.handle_item(start, hi, nm, ctx)
                    if r is not None:
                        i = r
                    else:
                        self._no_item_at = start
                        i = start
                    continue
            # ---- X14 slice-iterator `for` loops
            if t.t == 'for' and self.x14 and (i == lo or toks[i - 1].t in ('{', '}', ';')):
                r = self.desugar_for(i, hi)
                if r is not None:
                    i = r
                    continue
            # ---- macros
            if t.k == 'id' and i + 2 < hi and toks[i + 1].t == '!' and toks[i + 2].t in OPEN:
                r = self.handle_macro(i, hi)
                if r is not None:
                    i = r
                    continue
            # ---- X10 legacy constants core::u32::MAX
            if t.t == 'core' and i + 4 < hi and toks[i + 1].t == '::' and toks[i + 2].t in (
                    'u8', 'u16', 'u32', 'u64', 'usize', 'i8', 'i16', 'i32', 'i64', 'isize') \
                    and toks[i + 3].t == '::' and toks[i + 4].t in ('MAX', 'MIN'):
                self.fired['X10'] += 1
                for k in (i + 2, i + 3, i + 4):
                    self.emit_tok(k)
                i += 5
                continue
            # ---- X12 raw deref of named pointer idents
            if t.t == '*' and i + 1 < hi and toks[i + 1].t in self.deref_idents and \
                    (i == lo or toks[i - 1].k == 'op' and toks[i - 1].t not in (')', ']')):
                # operand: ident followed by optional .cast() chain
                j = i + 1
                self.emit_tok(j)
                j += 1
                while j + 3 < hi and toks[j].t == '.' and toks[j + 1].t == 'cast' and toks[j + 2].t == '(' \
                        and toks[j + 3].t == ')':
                    for k in range(j, j + 4):
                        self.emit_tok(k)
                    j += 4
                self.emit_syn('.read()')
                self.fired['X12'] += 1
                i = j
                continue
            # ---- configured literal rewrites
            done = False
            for frm, to, rule in self.rewrites:
                n = len(frm)
                if i + n <= hi and [x.t for x in toks[i:i + n]] == frm:
                    if to:
                        self.emit_syn(to)
                    self.fired[rule] += 1
                    i += n
                    done = True
                    break
            if done:
                continue
            # ---- X15 value uses of fn items / calls through the fn-pointer field
            if self.defunc and t.k == 'id':
                hit = None
                for d in self.defunc:
                    if t.t.startswith(d['prefix']) and t.t in self.defunc_fns(d):
                        hit = d
                if hit is not None and toks[i - 1].t != 'fn' and not (i + 1 < hi and toks[i + 1].t == '(') \
                        and toks[i - 1].t != '::':
                    self.emit_syn('%s::%s' % (hit['type'], t.t))
                    self.fired['X15'] += 1
                    i += 1
                    continue
            if self.defunc and t.t == '(' and i + 5 < hi and [x.t for x in toks[i:i + 5]] == ['(', 'self', '.', 'call', ')'] \
                    and toks[i + 5].t == '(':
                d = [d for d in self.defunc if ctx and ctx.split('::')[-1] == d['impl']]
                if d:
                    c2 = match_close(toks, i + 5)
                    args = self.src[toks[i + 6].s:toks[c2 - 1].e] if c2 > i + 6 else ''
                    args = re.sub(r'\s+', ' ', args)
                    arms = ', '.join('%s::%s => %s(%s)' % (d[0]['type'], n, n, args) for n in self.defunc_fns(d[0]))
                    self.emit_syn('match self.call { %s }' % arms, toks[i].s)
                    self.fired['X15'] += 1
                    i = c2 + 1
                    continue
            if t.t in OPEN:
                depth += 1
            elif t.t in CLOSE:
                depth -= 1
            self.emit_tok(i)
            i += 1

    def note_dropped(self, nm, ctx, a, b):
        """code items left out by `drop_items` (not tests, not `use`) are not verified; with `pin_dropped` their text is
        pinned by a hash so that a change to them is reported instead of silently ignored"""
        if not self.opts.get('pin_dropped') or nm == 'mod tests' or nm.startswith('use'):
            return
        full = (ctx + '::' + nm) if ctx else nm
        if not any(full == d or full.endswith('::' + d) for d in self.drop_items):
            return
        import hashlib
        self._dropped_sha = hashlib.sha256((getattr(self, '_dropped_sha', '') + ' '.join(t.t for t in self.toks[a:b])).encode()).hexdigest()[:16]
        for k in [k for k in self.fired if k.startswith('X0-dropped:')]:
            del self.fired[k]
        self.fired['X0-dropped:' + self._dropped_sha] = 1

    def will_drop(self, nm, ctx):
        full = (ctx + '::' + nm) if ctx else nm
        if ctx is None and self.only_items is not None and nm not in self.only_items and \
                not any(o.endswith('*') and nm.startswith(o[:-1]) for o in self.only_items):
            return True
        return any(full == d or full.endswith('::' + d) for d in self.drop_items)

    def _in_fn_body(self, ctx):
        return False

    def _at_item_start(self, i, lo):
        if i == lo:
            return True
        p = self.toks[i - 1].t
        return p in ('}', ';', '{', ']') or p == ')' and False

    def handle_attrs(self, i, hi, ctx):
        toks = self.toks
        kept = []
        dropped_thing = False
        j = i
        while j < hi and toks[j].t == '#' and (toks[j + 1].t == '[' or (toks[j + 1].t == '!' and toks[j + 2].t == '[')):
            inner = toks[j + 1].t == '!'
            b = j + (2 if inner else 1)
            c = match_close(toks, b)
            name = toks[b + 1].t
            if inner:
                self.fired['X1'] += 1
                j = c + 1
                continue
            if name == 'cfg':
                pred, _ = _parse_pred(toks, b + 3)
                self.fired['X5'] += 1
                if not eval_pred(pred, self.cfg):
                    dropped_thing = True
            elif name == 'cfg_attr':
                self.fired['X5'] += 1      # all cfg_attr in this crate add doc/feature attrs only: dropped
            elif name == 'derive':
                args = _split_args(toks, b + 3, c - 1)
                names = [toks[a].t for a, _ in args]
                keep = [n for n in names if n in self.keep_derives]
                if len(keep) != len(names):
                    self.fired['X1'] += 1
                if keep:
                    kept.append('#[derive(%s)]' % ', '.join(keep))
            elif name in DROP_ATTRS:
                self.fired['X1'] += 1
            elif name == 'repr' or name == 'macro_use' or name == 'no_std' or name == 'feature' or name == 'macro_export':
                self.fired['X1'] += 1
            else:
                kept.append(self.src[toks[j].s:toks[c].e])
            j = c + 1
        if j >= hi:
            return j
        if dropped_thing:
            return self.thing_end(j, hi)
        nm = None
        try:
            if toks[j].k == 'id':
                nm = self.item_name(j, hi)
        except IndexError:
            nm = None
        if nm is not None and self.will_drop(nm, ctx):
            self.fired['X1'] += 1
            self.note_dropped(nm, ctx, j, self.thing_end(j, hi))
            return self.thing_end(j, hi)
        for k in kept:
            self.emit_syn(k, toks[i].s)
        return j

    def handle_item(self, i, hi, nm, ctx):
        """returns new index if the item was consumed here, else None (walk continues token by token)"""
        toks = self.toks
        if nm.startswith('impl ') and ' for ' in nm:
            tr, ty = nm[5:].split(' for ')
            if tr in self.drop_impl_traits:
                self.fired['X1'] += 1
                return self.thing_end(i, hi)
            if tr in self.inherent_traits:
                # X7: impl<..> Trait for Ty<..> { ... } -> impl<..> Ty<..> { ... } ; drop `type Item = ..;`
                end = self.thing_end(i, hi)
                # find 'for' at depth 0 between impl and '{'
                k = i
                while toks[k].t != 'impl':
                    self.emit_tok(k)
                    k += 1
                self.emit_tok(k)
                k += 1
                if toks[k].t == '<':
                    depth = 0
                    while True:
                        if toks[k].t == '<':
                            depth += 1
                        elif toks[k].t == '>':
                            depth -= 1
                        self.emit_tok(k)
                        k += 1
                        if depth == 0:
                            break
                while toks[k].t != 'for':
                    k += 1
                k += 1
                while toks[k].t != '{':
                    self.emit_tok(k)
                    k += 1
                c = match_close(toks, k)
                self.fired['X7'] += 1
                if c == k + 1:
                    # empty impl (FusedIterator): nothing to keep -> drop emitted header
                    # remove what we emitted for this header
                    while self.out and self.out[-1][1] is not None and self.out[-1][1] >= toks[i].s:
                        self.out.pop()
                    return end
                self.emit_tok(k)
                # body: drop associated type items
                self.walk_impl_body(k + 1, c, drop_assoc_types=True, ctx=nm)
                self.emit_tok(c)
                return end
        if nm.startswith('mod ') or nm.startswith('impl ') or nm.startswith('trait '):
            # descend with context (so nested drop_items like "impl One::fn foo" work)
            end = self.thing_end(i, hi)
            k = i
            while k < end and toks[k].t != '{':
                if toks[k].t == ';':
                    break
                k += 1
            if k >= end or toks[k].t == ';':
                return None
            self.walk_tokens_plain(i, k + 1)
            c = match_close(toks, k)
            self.walk(k + 1, c, ctx=(ctx + '::' + nm) if ctx else nm)
            self.emit_tok(c)
            return c + 1
        if nm.startswith('struct ') or nm.startswith('union '):
            sname = nm.split(' ', 1)[1]
            end = self.thing_end(i, hi)
            k = i
            while k < end and toks[k].t not in ('{', ';', '('):
                k += 1
            if k < end and toks[k].t in ('{', '('):
                c = match_close(toks, k)
                self.walk_tokens_plain(i, k + 1)
                fields = _split_args(toks, k + 1, c)
                for n_, (a, b) in enumerate(fields):
                    f = a
                    while toks[f].t == '#':
                        f = match_close(toks, f + 1) + 1
                    had_pub = toks[f].t == 'pub'
                    g = f
                    if had_pub:
                        g += 1
                        if toks[g].t == '(':
                            g = match_close(toks, g) + 1
                    fname = toks[g].t if toks[k].t == '{' else str(n_)
                    if '%s.%s' % (sname, fname) in self.drop_fields:
                        self.fired['X9'] += 1
                        continue
                    self.walk(a, f)          # attributes (cfg etc.)
                    if self.x2:
                        if had_pub:
                            self.emit_tok(f)
                            if g > f + 1:
                                self.fired['X2'] += 1
                        else:
                            self.emit_syn('pub', toks[f].s)
                            self.fired['X2'] += 1
                        self.walk(g, b)
                    else:
                        self.walk(f, b)
                    if b < c and toks[b].t == ',':
                        self.emit_tok(b)
                self.emit_tok(c)
                # rest (where clause / ';')
                self.walk(c + 1, end)
                return end
        return None

    def walk_tokens_plain(self, lo, hi):
        # header tokens may still contain attributes? no: attributes were handled before the item start
        self.walk_noitems(lo, hi)

    def walk_noitems(self, lo, hi):
        toks = self.toks
        k = lo
        while k < hi:
            done = False
            for frm, to, rule in self.rewrites:
                n = len(frm)
                if k + n <= hi and [x.t for x in toks[k:k + n]] == frm:
                    if to:
                        self.emit_syn(to)
                    self.fired[rule] += 1
                    k += n
                    done = True
                    break
            if not done:
                self.emit_tok(k)
                k += 1

    def walk_impl_body(self, lo, hi, drop_assoc_types, ctx):
        toks = self.toks
        i = lo
        # drop `type X = ...;` at depth 0 then walk the rest normally
        segs = []
        depth = 0
        k = lo
        start = lo
        while k < hi:
            t = toks[k].t
            if depth == 0 and t == 'type' and drop_assoc_types and (k == lo or toks[k - 1].t in (';', '}', ']')):
                e = self._scan_to(k, hi, {';'}) + 1
                segs.append((start, k))
                start = e
                k = e
                continue
            if t in OPEN:
                depth += 1
            elif t in CLOSE:
                depth -= 1
            k += 1
        segs.append((start, hi))
        for a, b in segs:
            if a < b:
                self.walk(a, b, ctx=ctx)

    def handle_macro(self, i, hi):
        toks = self.toks
        name = toks[i].t
        o = i + 2
        c = match_close(toks, o)
        end = c + 1
        has_semi = end < hi and toks[end].t == ';'
        if name in LOG_MACROS:
            self.fired['X1'] += 1
            return end + (1 if has_semi else 0)
        if name == 'cfg':
            pred, _ = _parse_pred(toks, o + 1)
            self.fired['X5'] += 1
            self.emit_syn('true' if eval_pred(pred, self.cfg) else 'false')
            return end
        if name in self.macro_defs:
            self.expand_simple_macro(name, o, c, toks[i].s)
            self.fired['X6'] += 1
            return end + (1 if has_semi else 0)
        if name == 'unsafe_ifunc' and self.ifunc_body is not None:
            self.expand_ifunc(o, c, toks[i].s)
            self.fired['X6'] += 1
            return end + (1 if has_semi else 0)
        if name in ASSERT_MACROS:
            is_debug = name.startswith('debug_')
            args = _split_args(toks, o + 1, c)
            if is_debug and self.debug_asserts == 'drop':
                self.fired['X3-drop'] += 1
                return end + (1 if has_semi else 0)
            base = name.replace('debug_', '')
            rule = 'X3' if is_debug else 'X4'
            self.fired[rule] += 1

            def sub(a):
                # arguments may themselves need rewriting (nested macros, derefs): recurse
                save, savei = self.out, self.inline
                self.out, self.inline = [], True
                self.walk(a[0], a[1])
                r = self.out
                self.out, self.inline = save, savei
                return r
            hint = toks[i].s
            if base == 'assert':
                e = sub(args[0])
                v = 'da' if is_debug else 'c'
                self.emit_syn('{ let %s: bool =' % v, hint)
                self.out.extend(e)
                if (not is_debug) and self.asserts == 'panic':
                    self.emit_syn('; panic_unless(%s); }' % v)
                else:
                    self.emit_syn('; assert(%s); }' % v)
            else:
                l, r = sub(args[0]), sub(args[1])
                op = '==' if base == 'assert_eq' else '!='
                self.emit_syn('{ let l =', hint)
                self.out.extend(l)
                self.emit_syn('; let r =')
                self.out.extend(r)
                if (not is_debug) and self.asserts == 'panic':
                    self.emit_syn('; panic_unless(l %s r); }' % op)
                else:
                    self.emit_syn('; assert(l %s r); }' % op)
            return end + (1 if has_semi else 0)
        return None

    def defunc_fns(self, d):
        """top-level fn items named <prefix>* that survive selection (closed world of values of the fn-pointer type)"""
        if self._defunc_fns is None:
            self._defunc_fns = {}
        if d['type'] in self._defunc_fns:
            return self._defunc_fns[d['type']]
        toks = self.toks
        names = []
        depth = 0
        for k, t in enumerate(toks):
            if t.t in OPEN:
                depth += 1
            elif t.t in CLOSE:
                depth -= 1
            elif depth == 0 and t.t == 'fn' and k + 1 < len(toks) and toks[k + 1].t.startswith(d['prefix']):
                nm = 'fn ' + toks[k + 1].t
                # preceding cfg attributes may disable the item: evaluate them
                j = k - 1
                while j >= 0 and toks[j].t in ('unsafe', 'pub', ')', 'crate', '(', 'const'):
                    j -= 1
                ok = True
                while j >= 0 and toks[j].t == ']':
                    o = j
                    dd = 0
                    while True:
                        if toks[o].t == ']':
                            dd += 1
                        elif toks[o].t == '[':
                            dd -= 1
                            if dd == 0:
                                break
                        o -= 1
                    if toks[o + 1].t == 'cfg':
                        pred, _ = _parse_pred(toks, o + 3)
                        if not eval_pred(pred, self.cfg):
                            ok = False
                    j = o - 2
                if ok and not self.will_drop(nm, None):
                    names.append(toks[k + 1].t)
        self._defunc_fns[d['type']] = names
        return names

    def desugar_for(self, i, hi):
        """X14: `for PAT in S[.iter()][.rev()|.copied()|.skip(K)|.take(M)|.enumerate()]* { BODY }` over a slice S is
        rewritten into an index `while` loop with the std adaptor semantics (double-ended range [lo,hi), skip/take trim
        the front in the current direction, enumerate counts the elements yielded after it). `continue` stays correct
        (the cursor moves before BODY). Anything else (integer ranges, other adaptors, non-slice receivers named in
        opts x14_skip) is left untouched."""
        toks = self.toks
        # pattern up to `in` at depth 0
        k = i + 1
        depth = 0
        while k < hi:
            t = toks[k].t
            if t in OPEN:
                depth += 1
            elif t in CLOSE:
                depth -= 1
            elif depth == 0 and t == 'in':
                break
            k += 1
        if k >= hi:
            return None
        pat = [x.t for x in toks[i + 1:k]]
        # expression up to body `{`
        e0 = k + 1
        q = e0
        depth = 0
        while q < hi:
            t = toks[q].t
            if t in ('(', '['):
                depth += 1
            elif t in (')', ']'):
                depth -= 1
            elif depth == 0 and t == '{':
                break
            q += 1
        if q >= hi:
            return None
        body_open = q
        body_close = match_close(toks, body_open)
        expr = toks[e0:body_open]
        if any(x.t in ('..', '..=') for x in expr):
            return None
        # receiver = tokens before the first `.iter`/adaptor
        j = 0
        while j < len(expr) and not (expr[j].t == '.' and j + 1 < len(expr) and expr[j + 1].t in ('iter', 'rev', 'copied', 'skip', 'take', 'enumerate')):
            j += 1
        recv = ''.join(x.t for x in expr[:j])
        if not recv or recv in self.opts.get('x14_skip', []):
            return None
        chain = []
        while j < len(expr):
            if expr[j].t != '.' or expr[j + 1].t not in ('iter', 'rev', 'copied', 'skip', 'take', 'enumerate') or expr[j + 2].t != '(':
                return None
            c = match_close(expr, j + 2)
            chain.append((expr[j + 1].t, _join_tokens([x.t for x in expr[j + 3:c]])))
            j = c + 1
        # pattern forms
        deref = True      # elements are &u8 unless copied()
        idx_name = None
        if pat[0] == '(' and pat[-1] == ')':
            inner = pat[1:-1]
            if ',' not in inner:
                return None
            c = inner.index(',')
            idx_name = ''.join(inner[:c])
            ep = inner[c + 1:]
        else:
            ep = pat
        copied = any(a == 'copied' for a, _ in chain)
        if ep[0] == '&':
            el_name = ''.join(ep[1:])
        elif copied:
            el_name = ''.join(ep)
        else:
            return None         # binding a reference: not needed by this crate
        if (idx_name is not None) != any(a == 'enumerate' for a, _ in chain):
            return None
        n = self.x14_n
        self.x14_n += 1
        S, LO, HI, K, P = '__s%d' % n, '__lo%d' % n, '__hi%d' % n, '__k%d' % n, '__p%d' % n
        pre = ['{ let %s = %s; let mut %s: usize = 0; let mut %s: usize = %s.len();' % (S, recv, LO, HI, S)]
        fwd = True
        enum_on = False
        if idx_name is not None:
            pre.append('let mut %s: usize = 0;' % K)
        for a, arg in chain:
            if a == 'rev':
                if enum_on:
                    return None     # enumerate().rev() needs ExactSize semantics: not used by the crate
                fwd = not fwd
            elif a == 'skip':
                if fwd:
                    pre.append('if %s < %s - %s { %s = %s + %s; } else { %s = %s; }' % (arg, HI, LO, LO, LO, arg, LO, HI))
                else:
                    pre.append('if %s < %s - %s { %s = %s - %s; } else { %s = %s; }' % (arg, HI, LO, HI, HI, arg, HI, LO))
                if enum_on:
                    pre.append('%s = %s + %s;' % (K, K, arg))
            elif a == 'take':
                if fwd:
                    pre.append('if %s < %s - %s { %s = %s + %s; }' % (arg, HI, LO, HI, LO, arg))
                else:
                    pre.append('if %s < %s - %s { %s = %s - %s; }' % (arg, HI, LO, LO, HI, arg))
            elif a == 'enumerate':
                enum_on = True
        hint = toks[i].s
        self.emit_syn(' '.join(pre), hint)
        self.emit_syn('while %s < %s {' % (LO, HI), hint)
        if fwd:
            step = 'let %s = %s; %s = %s + 1;' % (P, LO, LO, LO)
        else:
            step = '%s = %s - 1; let %s = %s;' % (HI, HI, P, HI)
        self.emit_syn(step + ' let %s = %s[%s];' % (el_name, S, P))
        if idx_name is not None:
            self.emit_syn('let %s = %s; %s = %s + 1;' % (idx_name, K, K, K))
        self.walk(body_open + 1, body_close)
        self.emit_syn('} }')
        self.fired['X14'] += 1
        return body_close + 1

    def expand_simple_macro(self, name, o, c, hint):
        """X6: single-arm macro_rules! with ident metavariables and one `$($x:ident),+` repetition: textual substitution
        of the arguments into the macro body, which is then extracted like ordinary code (cfg resolution, X1, X3)"""
        toks = self.toks
        lo, hi = self.macro_defs[name]
        body = toks[lo:hi]
        # macro_rules! name { ( params ) => {{ body }} }
        k = 0
        while body[k].t != '{':
            k += 1
        p_open = k + 1
        while body[p_open].t != '(':
            p_open += 1
        p_close = match_close(body, p_open)
        params = []
        rep = None
        q = p_open + 1
        while q < p_close:
            if body[q].t == '$' and body[q + 1].t == '(':
                cl = match_close(body, q + 1)
                rep = body[q + 3].t
                q = cl + 1
                while q < p_close and body[q].t in (',', '+', '*'):
                    q += 1
                continue
            if body[q].t == '$':
                params.append(body[q + 1].t)
                q += 4          # $ name : kind
                if q < p_close and body[q].t == ',':
                    q += 1
                continue
            q += 1
        b_open = p_close + 1
        while body[b_open].t != '{':
            b_open += 1
        b_close = match_close(body, b_open)
        args = _split_args(toks, o + 1, c)
        txt = [' '.join(t.t for t in toks[a:b]) for a, b in args]
        if len(txt) < len(params):
            raise ExtractError('%s!: too few arguments' % name)
        val = dict(zip(params, txt[:len(params)]))
        reps = txt[len(params):]
        out = []
        seq = body[b_open + 1:b_close]
        k = 0
        while k < len(seq):
            t = seq[k].t
            if t == '$' and seq[k + 1].t == '(':
                cl = match_close(seq, k + 1)
                inner = [x.t for x in seq[k + 2:cl]]
                if inner == ['$', rep]:
                    out.append(', '.join(reps))
                else:
                    raise ExtractError('%s!: unsupported repetition %s' % (name, inner))
                k = cl + 1
                if k + 1 < len(seq) and seq[k].t == ',' and seq[k + 1].t in ('+', '*'):
                    k += 2
                continue
            if t == '$':
                nm_ = seq[k + 1].t
                if nm_ not in val:
                    raise ExtractError('%s!: unknown metavariable $%s' % (name, nm_))
                out.append(val[nm_])
                k += 2
                continue
            out.append(t)
            k += 1
        text = _join_tokens(out)
        sub = Extractor(text, self.cfg, dict(self.opts, simple_macros=[], only_items=None, drop_items=[]))
        sub.walk(0, len(sub.toks))
        for kf, vf in sub.fired.items():
            self.fired[kf] += vf
        self.emit_syn(sub.render().strip(), hint)

    def ifunc_residue_sha(self, lo, hi):
        """X6 keeps the three helper fns of `unsafe_ifunc!` and REPLACES the rest of the macro (detect, the static
        AtomicPtr, the transmute and the final call) by a choice among them (assumption A2).  The replaced text is pinned
        by this hash (tool/units.py): if it changes, A2 no longer describes the code and the checks say so."""
        import hashlib
        body = self.toks[lo:hi]
        skip = set()
        for helper in ('find_avx2', 'find_sse2', 'find_fallback'):
            for k in range(len(body) - 1):
                if body[k].t == 'fn' and body[k + 1].t == helper:
                    st = k - 1 if k > 0 and body[k - 1].t == 'unsafe' else k
                    j = k
                    while body[j].t != '{':
                        j += 1
                    en = match_close(body, j)
                    skip.update(range(st, en + 1))
                    break
        text = ' '.join(t.t for x, t in enumerate(body) if x not in skip)
        return hashlib.sha256(text.encode()).hexdigest()[:16]

    def expand_ifunc(self, o, c, hint):
        """X6: instantiate the three helper fns of `unsafe_ifunc!` by textual substitution of the macro arguments; the
        detect / AtomicPtr / transmute part is replaced by a match on the trusted `ifunc_choice()` (assumption A2)"""
        toks = self.toks
        args = _split_args(toks, o + 1, c)
        txt = [' '.join(t.t for t in toks[a:b]) for a, b in args]
        if len(txt) < 7:
            raise ExtractError('unsafe_ifunc!: unexpected argument list')
        memchrty, memchrfind, fnty, retty, hs, he = txt[:6]
        needles = txt[6:]
        lo, hi = self.ifunc_body
        body = toks[lo:hi]

        def subst(seq):
            out = []
            k = 0
            while k < len(seq):
                t = seq[k].t
                if t == '$' and k + 1 < len(seq) and seq[k + 1].t == '(':
                    # $($needle: u8),+   or   $($needle),+
                    cl = match_close(seq, k + 1)
                    inner = [x.t for x in seq[k + 2:cl]]
                    if inner == ['$', 'needle', ':', 'u8']:
                        out.append(', '.join('%s: u8' % n for n in needles))
                    elif inner == ['$', 'needle']:
                        out.append(', '.join(needles))
                    else:
                        raise ExtractError('unsafe_ifunc!: unknown repetition %s' % inner)
                    k = cl + 1
                    if k < len(seq) and seq[k].t == ',' and k + 1 < len(seq) and seq[k + 1].t == '+':
                        k += 2
                    continue
                if t == '$' and k + 1 < len(seq):
                    v = {'memchrty': memchrty, 'memchrfind': memchrfind, 'fnty': fnty, 'retty': retty,
                         'hay_start': hs, 'hay_end': he}.get(seq[k + 1].t)
                    if v is None:
                        raise ExtractError('unsafe_ifunc!: unknown metavariable $%s' % seq[k + 1].t)
                    out.append(v)
                    k += 2
                    continue
                out.append(t)
                k += 1
            return out

        pieces = ['{']
        for helper in ('find_avx2', 'find_sse2', 'find_fallback'):
            pos = None
            for k in range(len(body) - 1):
                if body[k].t == 'fn' and body[k + 1].t == helper:
                    pos = k
                    break
            if pos is None:
                raise ExtractError('unsafe_ifunc!: helper %s not found in macro' % helper)
            st = pos - 1 if body[pos - 1].t == 'unsafe' else pos
            k = pos
            while body[k].t != '{':
                k += 1
            en = match_close(body, k)
            pieces.append('\n        ' + _join_tokens(subst(body[st:en + 1])))
        call_args = ', '.join(needles + [hs, he])
        pieces.append('\n        match crate::vbase::ifunc_choice() { 0 => unsafe { find_avx2(%s) }, 1 => unsafe { find_sse2(%s) }, '
                      '_ => unsafe { find_fallback(%s) } }\n    }' % (call_args, call_args, call_args))
        self.emit_syn(''.join(pieces), hint)

    # -------------------------------------------------------------- rendering
    def render(self):
        """re-emit tokens, keeping the original line structure where tokens are adjacent in the source"""
        src = self.src

        def line_indent(pos):
            ls = src.rfind('\n', 0, pos) + 1
            m = re.match(r'[ \t]*', src[ls:pos])
            return m.group(), (src[ls:pos].strip() == '')

        pieces = []
        prev_end = None
        prev_hint = None
        first = True
        for text, pos, hint, inline in self.out:
            if first:
                sep = ''
            elif inline:
                if pos is not None and prev_end is not None and pos >= prev_end and src[prev_end:pos] == '':
                    sep = ''
                else:
                    sep = ' '
                if text in (';', ',', ')', '.') or (pieces and pieces[-1] in ('(', '.', '!')):
                    sep = '' if not (pos is not None and prev_end is not None and src[prev_end:pos] != '' and text not in (';', ',', ')')) else sep
            elif pos is not None and prev_end is not None and pos >= prev_end:
                gap = src[prev_end:pos]
                gap = re.sub(r'//[^\n]*', '', gap)
                gap = re.sub(r'/\*.*?\*/', '', gap, flags=re.S)
                if '\n' in gap:
                    sep = '\n' + line_indent(pos)[0]
                elif gap == '':
                    sep = ''
                else:
                    sep = ' '
            else:
                p = pos if pos is not None else hint
                sep = ' '
                if p is not None and not (pos is not None and prev_hint is not None and pos == prev_hint):
                    ind, starts = line_indent(p)
                    if starts:
                        sep = '\n' + ind
                if text in (';', ',', ')'):
                    sep = ''
            pieces.append(sep)
            pieces.append(text)
            first = False
            prev_hint = hint if pos is None else None
            prev_end = (pos + len(text)) if pos is not None else None
        return ''.join(pieces) + '\n'


def extract(src, cfg, opts=None):
    ex = Extractor(src, cfg, opts)
    return ex.run()


if __name__ == '__main__':
    import sys, json
    path = sys.argv[1]
    cfg = CONFIGS[sys.argv[2] if len(sys.argv) > 2 else 'x86_64']
    opts = json.loads(sys.argv[3]) if len(sys.argv) > 3 else {}
    text, fired = extract(open(path).read(), cfg, opts)
    sys.stdout.write(text)
    sys.stderr.write(repr(dict(fired)) + '\n')
