#!/bin/bash
# Negative controls (development helper): behaviour-preserving changes must never produce a VIOLATION.
#   tool/negeval.sh <property-id>...        env NEGS="seeded_neg/X.diff ..." selects patches (default: all)
# Works on a scratch worktree of /repo (created on demand, removed with `git -C /repo worktree remove --force /tmp/repo_neg`)
# and writes evidence to a scratch directory; the replayer, Kani and canaries are skipped (the verdict of Verus is what is tested).
cd "$(dirname "$0")/.." || exit 2
WT=${NEG_WORKTREE:-/tmp/repo_neg}
[ -d "$WT" ] || git -C /repo worktree add --detach "$WT" HEAD >/dev/null 2>&1 || exit 2
mkdir -p /tmp/vwork_neg/evidence
for f in ${NEGS:-seeded_neg/*.diff}; do
  n=$(basename $f .diff)
  git -C "$WT" checkout -q -- .
  git -C "$WT" apply "$PWD/$f" || { echo "$n PATCH FAILS"; continue; }
  for id in "$@"; do
    out=$(VERIF_EVIDENCE_DIR=/tmp/vwork_neg/evidence VERIF_REPO="$WT" VERIF_NO_KANI=1 VERIF_NO_REPLAYER=1 VERIF_NO_CANARY=1 VERIF_WORK=/tmp/vwork_neg ./check $id 2>&1 | grep -E "^(VIOLATION|UNDECIDED|OK)" | head -2 | cut -c1-220)
    echo "$n $id :: $out"
  done
done
git -C "$WT" checkout -q -- .
