#!/bin/bash
# negative controls: benign changes must never produce a VIOLATION
cd /verif
for f in ${NEGS:-seeded_neg/*.diff}; do
  n=$(basename $f .diff)
  git -C /tmp/repo_neg checkout -q -- .
  git -C /tmp/repo_neg apply /verif/$f || { echo "$n PATCH FAILS"; continue; }
  for id in "$@"; do
    out=$(VERIF_EVIDENCE_DIR=/tmp/vwork_neg/evidence VERIF_REPO=/tmp/repo_neg VERIF_NO_KANI=1 VERIF_NO_REPLAYER=1 VERIF_NO_CANARY=1 VERIF_WORK=/tmp/vwork_neg ./check $id 2>&1 | grep -E "^(VIOLATION|UNDECIDED|OK)" | head -2 | cut -c1-220)
    echo "$n $id :: $out"
  done
done
git -C /tmp/repo_neg checkout -q -- .
