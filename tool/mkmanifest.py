#!/usr/bin/env python3
"""Regenerate MANIFEST.json from tool/props.py (the single source of what is claimed)."""
import json
import os
import sys

sys.path.insert(0, os.path.dirname(os.path.abspath(__file__)))
import props as P
import units

TEXT = {
    'C01': ('proof', 'Verus discharges, for all inputs and with no bound, the contracts of the real forward byte searchers: generic One/Two/Three::find_raw (every V: Vector), the SSE2/AVX2 wrappers and their short-haystack routing, the SWAR fallback, the three dispatcher targets and memchr/memchr2/memchr3 themselves, whose postcondition is the property statement', '5 C01'),
    'C02': ('proof', 'as C01 for rfind_raw / memrchr{,2,3}: postcondition = largest matching index, None iff none', '5 C02'),
    'C03': ('proof', 'one Verus unit contains the whole forward substring stack extracted from /repo: memmem::find, Finder::{new,find}, FinderBuilder, Searcher::{new,twoway,find} (fn pointers defunctionalised mechanically, rule X15), every searcher_kind_*, packed-pair find, Rabin-Karp incl. constructors, Two-Way incl. completeness (critical-factorisation theorem), memchr for one-byte needles; the postcondition of memmem::find / Finder::find is the property statement (is_leftmost)', '5 C03'),
    'C04': ('proof', 'memmem::rfind, FinderRev::{new,rfind}, SearcherRev::{new,rfind} (plain enum) proved against the real reverse engines (Rabin-Karp reverse incl. constructor, Two-Way reverse incl. completeness, memrchr), all discharged by Verus in the same run', '5 C04'),
    'C05': ('proof', 'every dereference, aligned load and pointer step in the extracted units carries a readable-range / in-bounds / alignment precondition that Verus discharges at each call site; safe entry points have no memory precondition beyond their type invariant; packed-pair finders also in the S (release, any-needle) variant', '5 C05'),
    'C06': ('proof', 'per-operation window contracts on the real iterator methods of every backend + inductive spec-level history lemmas covering every next/next_back order', '5 C06'),
    'C07': ('proof', 'count_raw loop invariant count == count_hits(start,cur) on the real generic code, wrappers, SWAR, dispatcher and Memchr::count / Iter::count on the current window', '5 C07'),
    'C08': ('proof', 'FindIter/FindRevIter next and size_hint proved to realise the greedy non-overlapping sequence (spec fns greedy_fwd/greedy_rev, counting lemma for size_hint) for every PrefilterState, on top of the proved Searcher/SearcherRev contracts in the same unit', '5 C08'),
    'C09': ('proof', 'SWAR (64- and 32-bit usize), SSE2, AVX2, NEON, wasm32 simd128 and every dispatcher/meta-searcher strategy proved against one functional specification with a unique answer; the aarch64/wasm32/portable wirings are verified from source text the host never compiles', '5 C09'),
    'C10': ('proof', 'Searcher::new ensures built_for(needle) for every PrefilterConfig and every ranker (generic R; Pair::with_ranker proved for all rankers), Searcher::find ensures is_leftmost for every PrefilterState value; Two-Way with a prefilter is exact for every prefilter built for the needle', '5 C10'),
    'C11': ('proof', 'find_prefilter of the generic vector finder (SSE2/AVX2 wrappers), of the portable finder and Prefilter::find_simple are proved to return a candidate <= every occurrence and None only if there is none', '5 C11'),
    'C12': ('proof', 'each block proved exact on its documented domain: packed-pair find, Rabin-Karp search and constructors, Two-Way forward/reverse incl. completeness (critical-factorisation theorem), Shift-Or bit-parallel automaton; constructors reporting unsupported inputs by None', '5 C12'),
    'C14': ('proof', 'every debug_assert (X3), assert (X4, pinned both ways), index, slice range, subtraction, shift, unwrap and loop termination in the extracted units is an obligation discharged by Verus', '5 C14'),
    'C16': ('proof', 'Finder::find / FinderRev::rfind postconditions determine the result from (needle, haystack) for every call; needle(), as_ref, into_owned (finders and iterators) proved to preserve needle, searcher and iteration state', '5 C16'),
    'C17': ('proof', 'heap allocation is modelled as a permission: the allocating std constructors the crate calls are redirected (rule X16) to wrappers requiring the uninterpreted fact may_alloc(); Verus verifies every function of the crate WITHOUT that permission except the owning conversions (into_owned) and the Shift-Or constructor, which declare it, so no other function can reach an allocator; a token scan covers allocating constructs the rule does not model and the replayer counts allocations concretely when the verifier is undecided', '5 C17'),
    'C18': ('proof', 'is_equal_raw/is_equal/is_prefix/is_suffix proved equal to slice comparison with every read inside the given ranges', '5 C18'),
    'C19': ('proof', 'Pair::with_ranker proved for every ranker (generic R), Pair::new, with_indices, accessors, finder constructors / pair / min_haystack_len proved', '5 C19'),
}
TECH = 'contract-based deductive verification (Verus) of mechanically extracted real functions'


def main():
    path = os.path.join(units.VERIF, 'MANIFEST.json')
    man = json.load(open(path))
    checks = []
    for pid, spec in sorted(P.PROPS.items()):
        cat, text, ref = TEXT[pid]
        has_bounded = any(h.get('bounded') for h in spec.get('kani', []))
        checks.append(dict(
            property_id=pid,
            quick_cmd='./check %s' % pid,
            thorough_cmd='./check %s --tier thorough' % pid,
            evidence_file='evidence/%s.json' % pid,
            replay_cmd_template='./check %s --replay {path}' % pid,
            engine='verus-units',
            level_claimed=dict(category=cat, text=text, design_ref='DESIGN.md §' + ref),
            level_note='; '.join(spec.get('assumptions', []) + P.COMMON_ASSUMPTIONS),
            technique=TECH + ('; bounded Kani/CBMC harnesses as labelled stand-ins' if has_bounded else
                              ('; loop-free full-domain Kani harnesses close the x86 Vector leaf contracts' if spec.get('kani') else '')),
        ))
    man['checks'] = checks
    man['engines'] = [
        dict(name='verus-units', path='tool/check.py', serves_properties=sorted(P.PROPS),
             kind_free_text='mechanical extraction of the real functions (tool/xform.py), annotation weaving (tool/weave.py, tmpl/*.vrs), '
                            'deductive verification with Verus/Z3; verdict rules in tool/check.py'),
        dict(name='kani-harnesses', path='kani/', serves_properties=sorted(p for p, s in P.PROPS.items() if s.get('kani')),
             kind_free_text='Kani/CBMC: loop-free complete harnesses for the x86 Vector leaf contracts; bounded harnesses (labelled) for '
                            'what Verus cannot ingest or the contracts do not decide'),
        dict(name='replayer', path='replayer/', serves_properties=sorted(P.PROPS),
             kind_free_text='concrete input search against the real crate: attaches counterexamples to failed obligations; never decides a property on the unchanged tree'),
    ]
    json.dump(man, open(path, 'w'), indent=1)
    print('MANIFEST.json: %d checks' % len(checks))


if __name__ == '__main__':
    main()
