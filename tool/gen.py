"""Generate a single-file Verus crate for a build from the current working tree of the repo."""
import hashlib
import json
import os
import re
import sys

sys.path.insert(0, os.path.dirname(os.path.abspath(__file__)))
import units
from xform import extract, CONFIGS, ExtractError
from weave import weave, WeaveError, unbalanced_annotations
from rlex import lex, LexError

HEAD = '''#![feature(sized_hierarchy)]
#![allow(unused)]
#![allow(non_camel_case_types)]
extern crate alloc;
use vstd::prelude::*;
verus! {
global size_of usize == %(usize)d;
'''
TAIL = '''
} // verus!
fn main() {}
'''


class GenError(Exception):
    """extraction / weaving could not be completed: verdict UNDECIDED (exit 2), never an alarm"""


def cfg_of(name):
    if name in units.CONFIGS_EXTRA:
        return units.CONFIGS_EXTRA[name]
    return CONFIGS[name]


def extract_part(p, repo):
    if p['src'] is None:
        # pure stub part: assumed contracts of modules that are not in this build (no code of the crate)
        from collections import Counter
        return '', Counter()
    path = os.path.join(repo, p['src'])
    try:
        src = open(path).read()
    except OSError as e:
        raise GenError('lost anchor: cannot read %s (%s)' % (p['src'], e))
    try:
        text, fired = extract(src, cfg_of(p['cfg']), p['opts'])
    except (ExtractError, LexError, IndexError, AssertionError) as e:
        raise GenError('extractor failed on %s: %s' % (p['src'], e))
    return text, fired


def tmpl_paths(p):
    base = os.path.join(units.VERIF, 'tmpl', p['tmpl'])
    return base + '.vrs', base + '.e0'


class Part:
    pass


def gen_build(bname, repo=None, usize_bytes=None, drop_hints=None):
    repo = repo or units.REPO
    b = units.BUILDS[bname]
    usize_bytes = usize_bytes or b.get('usize_bytes', 8)
    lines = []          # generated text pieces
    out = HEAD % {'usize': usize_bytes}
    regions = []        # (start_line, end_line, kind, part, woven) ; lines are 1-based inclusive

    def cur_line():
        return out.count('\n') + 1

    for pf in b['prelude']:
        s = cur_line()
        out += open(os.path.join(units.VERIF, pf)).read().replace('@USIZE_BYTES@', str(usize_bytes))
        if not out.endswith('\n'):
            out += '\n'
        regions.append((s, cur_line() - 1, 'prelude', pf, None))
    # group parts by module path preserving order
    tree = {}
    order = []
    infos = []
    for pn in b['parts']:
        p = units.PARTS[pn]
        tree.setdefault(p['mod'], []).append(p)
    # build nested structure
    root = {}
    for modpath in tree:
        node = root
        for seg in [x for x in modpath.split('::') if x]:
            node = node.setdefault(seg, {})
        node['__parts__'] = tree[modpath]

    def emit(node, depth):
        nonlocal out
        for k, v in node.items():
            if k == '__parts__':
                for p in v:
                    e_text, fired = extract_part(p, repo)
                    tp, e0p = tmpl_paths(p)
                    try:
                        p_text = open(tp).read()
                        e0_text = open(e0p).read()
                    except OSError as e:
                        raise GenError('template missing for part %s: %s' % (p['name'], e))
                    try:
                        w = weave(e_text, e0_text, p_text, drop_hints=(drop_hints or {}).get(p['name']))
                    except (WeaveError, LexError) as e:
                        raise GenError('weave failed for part %s: %s' % (p['name'], e))
                    s = cur_line()
                    out += w.text
                    if not out.endswith('\n'):
                        out += '\n'
                    regions.append((s, cur_line() - 1, 'part', p['name'], w))
                    infos.append(dict(part=p['name'], src=p['src'], module=p['mod'], cfg=p['cfg'],
                                      x_rules=dict(fired), changed_vs_pinned=w.changed,
                                      trusted_residue_changed=(bool(p['opts'].get('ifunc_residue')) and
                                                               ('X6-residue:' + p['opts']['ifunc_residue']) not in fired) or
                                                              (bool(p['opts'].get('dropped_sha')) and
                                                               ('X0-dropped:' + p['opts']['dropped_sha']) not in fired),
                                      code_tokens=w.code_tokens, annotation_tokens=w.annot_tokens,
                                      new_tokens=w.new_tokens, removed_tokens=w.removed_tokens,
                                      extraction_sha256=hashlib.sha256(' '.join(t.t for t in lex(e_text)).encode()).hexdigest()))
            else:
                out += 'pub mod %s {\n' % k
                emit(v, depth + 1)
                out += '} // mod %s\n' % k
    emit(root, 0)
    out += TAIL
    return out, regions, infos


def locate(regions, line):
    """map a generated-file line to (kind, name, tags, local_line)"""
    for (s, e, kind, name, w) in regions:
        if s <= line <= e:
            if w is None:
                return kind, name, {'prelude'}, line - s + 1
            idx = line - s
            tags = w.line_tags[idx] if idx < len(w.line_tags) else set()
            return kind, name, tags, line - s + 1
    return 'glue', None, set(), line


if __name__ == '__main__':
    bname = sys.argv[1]
    outp = sys.argv[2]
    text, regions, infos = gen_build(bname)
    open(outp, 'w').write(text)
    for i in infos:
        sys.stderr.write(json.dumps(i) + '\n')
