"""Run Verus on a generated build and turn its output into a ledger of obligations."""
import json
import os
import re
import subprocess
import sys
import time

sys.path.insert(0, os.path.dirname(os.path.abspath(__file__)))
import gen
import units

FN_HDR = re.compile(r'^\s*(?:#\[[^\]]*\]\s*)*(?:pub(?:\([a-z]+\))?\s+)?(?:open\s+|closed\s+|broadcast\s+|uninterp\s+)*'
                    r'(?:unsafe\s+|const\s+|proof\s+|spec\s+|exec\s+|axiom\s+)*fn\s+([A-Za-z_0-9]+)')

# message -> (kind, code_level)  ; code_level means: an obligation the *code* must meet (not just the proof script)
KINDS = [
    (re.compile(r'postcondition not satisfied'), 'postcondition'),
    (re.compile(r'precondition not satisfied|fails to satisfy `callee.requires'), 'precondition'),
    (re.compile(r'possible arithmetic (underflow|overflow)'), 'arithmetic'),
    (re.compile(r'possible (division by zero|bit shift underflow/overflow)'), 'arithmetic'),
    (re.compile(r'assertion failed'), 'assertion'),
    (re.compile(r'invariant not satisfied'), 'invariant'),
    (re.compile(r'decreases not satisfied|could not prove termination'), 'decreases'),
    (re.compile(r'index out of bounds|index in bounds|slice index|possible.*out of (bounds|range)|precondition not met'), 'bounds'),
    (re.compile(r'recommendation not met'), 'recommends'),
    (re.compile(r'Resource limit|rlimit|timed? ?out|canceled'), 'rlimit'),
    (re.compile(r'trait (method )?implementation|does not satisfy the trait'), 'trait-contract'),
]


def classify_msg(msg):
    if re.search(r'not supported|unsupported|not yet supported|cannot find|mismatched types|expected ', msg):
        return 'other'
    for rx, k in KINDS:
        if rx.search(msg):
            return k
    return 'other'


class VerusResult:
    pass


def run_verus(path, modules=None, rlimit=None, threads=None, extra=None, timeout=3600, multiple_errors=5, spinoff=True):
    cmd = ['verus', path, '--triggers-mode', 'silent', '--error-format=json', '--output-json', '--time-expanded',
           '--multiple-errors', str(multiple_errors)]
    if spinoff and not os.environ.get('VERIF_NO_SPINOFF'):
        # one solver process per function: a query no longer depends on the solver state left behind by the functions
        # verified before it in the same module (One::find_raw went from unstable -- diverging or not depending on the
        # crate name -- to a steady 8-10M rlimit units)
        cmd += ['-V', 'spinoff-all']
    if modules:
        for m in modules:
            cmd += ['--verify-module', m]
    if rlimit:
        cmd += ['--rlimit', str(rlimit)]
    if threads:
        cmd += ['--num-threads', str(threads)]
    if extra:
        cmd += extra
    t0 = time.time()
    env = dict(os.environ)
    # own process group: on a timeout the solver processes (grandchildren, which keep the pipes open) must go as well
    pp = subprocess.Popen(cmd, stdout=subprocess.PIPE, stderr=subprocess.PIPE, text=True, cwd=os.path.dirname(path), env=env,
                          start_new_session=True)
    try:
        p_out, p_err = pp.communicate(timeout=timeout)
    except subprocess.TimeoutExpired:
        import signal
        try:
            os.killpg(pp.pid, signal.SIGKILL)
        except OSError:
            pass
        try:
            pp.communicate(timeout=20)
        except Exception:
            pass
        raise

    class _PR:
        pass
    pr = _PR()
    pr.returncode, pr.stdout, pr.stderr = pp.returncode, p_out, p_err
    wall = time.time() - t0
    r = VerusResult()
    r.cmd = ' '.join(cmd)
    r.wall = wall
    r.returncode = pr.returncode
    r.raw_stdout = pr.stdout
    r.raw_stderr = pr.stderr
    try:
        r.json = json.loads(pr.stdout)
    except Exception:
        r.json = None
    diags = []
    for l in pr.stderr.splitlines():
        l = l.strip()
        if l.startswith('{'):
            try:
                diags.append(json.loads(l))
            except Exception:
                pass
    r.diags = diags
    return r


def enclosing_fn(lines, line):
    """name of the function whose header is the closest one above `line` (1-based) with smaller indent"""
    i = min(line, len(lines)) - 1
    # indent of the target line
    while i >= 0:
        m = FN_HDR.match(lines[i])
        if m:
            ind = len(lines[i]) - len(lines[i].lstrip())
            tgt = lines[line - 1] if line - 1 < len(lines) else ''
            tind = len(tgt) - len(tgt.lstrip())
            if ind <= tind or i == line - 1:
                return m.group(1), i + 1
        i -= 1
    return None, None


def analyse(text, regions, r):
    """-> dict(errors=[...], hard_errors=[...], functions={name: {...}}, verified, failed)"""
    lines = text.split('\n')
    errors = []
    hard = []
    for d in r.diags:
        if d.get('level') != 'error':
            continue
        msg = d.get('message', '')
        if msg.startswith('aborting due to'):
            continue
        spans = d.get('spans', [])
        prim = [s for s in spans if s.get('is_primary')]
        kind = classify_msg(msg)
        if kind == 'other' and not any('failed' in (s.get('label') or '') for s in spans):
            # compile / mode / type / unsupported error
            ln = prim[0]['line_start'] if prim else 0
            where = gen.locate(regions, ln)
            hard.append(dict(message=msg, line=ln, part=where[1], tags=sorted(where[2]),
                             text=lines[ln - 1].strip() if 0 < ln <= len(lines) else ''))
            continue
        # the *site* of the failure (exit / call / assertion) vs the clause that failed
        site = None
        clause = None
        for s in spans:
            lab = (s.get('label') or '')
            if 'failed this' in lab or 'failed precondition' in lab or lab.startswith('failed'):
                clause = s
            else:
                site = site or s
        if site is None:
            site = prim[0] if prim else (spans[0] if spans else None)
        if clause is None:
            clause = prim[0] if prim else site
        sl = site['line_start'] if site else 0
        cl = clause['line_start'] if clause else 0
        skind, spart, stags, slocal = gen.locate(regions, sl)
        ckind, cpart, ctags, clocal = gen.locate(regions, cl)
        fn, fnline = enclosing_fn(lines, sl)
        errors.append(dict(kind=kind, message=msg, fn=fn, part=spart, site_line=sl, site_tags=sorted(stags),
                           site_text=lines[sl - 1].strip() if 0 < sl <= len(lines) else '',
                           clause_line=cl, clause_part=cpart, clause_tags=sorted(ctags),
                           clause_line_end=(clause or {}).get('line_end'), clause_col=(clause or {}).get('column_start'),
                           clause_col_end=(clause or {}).get('column_end'),
                           clause_text=lines[cl - 1].strip() if 0 < cl <= len(lines) else ''))
    funcs = {}
    if r.json:
        for mod in r.json.get('times-ms', {}).get('smt', {}).get('smt-run-module-times', []):
            for f in mod.get('function-breakdown', []):
                funcs[f['function']] = dict(mode=f.get('mode:') or f.get('mode'), micros=f.get('time-micros', 0),
                                            rlimit=f.get('rlimit', 0), success=f.get('success', False),
                                            module=mod.get('module'))
    vr = (r.json or {}).get('verification-results', {})
    return dict(errors=errors, hard_errors=hard, functions=funcs, verified=vr.get('verified', 0),
                failed=vr.get('errors', 0), encountered_vir_error=vr.get('encountered-vir-error', False),
                ok=bool(vr.get('success', False)))


if __name__ == '__main__':
    # development loop: gen + run + print
    bname = sys.argv[1]
    mods = sys.argv[2:] or None
    outdir = os.environ.get('VERIF_WORK', '/tmp/vwork')
    os.makedirs(outdir, exist_ok=True)
    text, regions, infos = gen.gen_build(bname)
    path = os.path.join(outdir, bname + '.rs')
    open(path, 'w').write(text)
    r = run_verus(path, modules=mods, extra=(['--no-erasure-check'] if units.BUILDS[bname].get('usize_bytes', 8) != 8 else None))
    a = analyse(text, regions, r)
    print('verified=%d failed=%d wall=%.1fs hard=%d' % (a['verified'], a['failed'], r.wall, len(a['hard_errors'])))
    seen = set()
    for h in a['hard_errors'][:40]:
        key = (h['message'], h['line'])
        if key in seen:
            continue
        seen.add(key)
        print('HARD %s:%d [%s] %s\n      %s' % (h['part'], h['line'], ','.join(h['tags']), h['message'][:300], h['text'][:160]))
    for e in a['errors'][:60]:
        print('ERR  %-14s fn=%s part=%s site=%d[%s] %s\n      clause=%d[%s] %s' % (
            e['kind'], e['fn'], e['part'], e['site_line'], ','.join(e['site_tags']), e['site_text'][:120],
            e['clause_line'], ','.join(e['clause_tags']), e['clause_text'][:120]))
    if not r.json:
        print(r.raw_stderr[-3000:])
