#!/usr/bin/env python3
"""Template maintenance (development time only).

  tmpl.py e0 PART             print the current extraction of PART
  tmpl.py init PART probes..  create tmpl/PART.vrs by grafting probe functions into the extraction (if absent)
  tmpl.py accept PART...      pin the current extraction as tmpl/PART.e0 and check that the template contains it
  tmpl.py accept-all
"""
import os
import subprocess
import sys

sys.path.insert(0, os.path.dirname(os.path.abspath(__file__)))
import units
import gen
from weave import weave, unbalanced_annotations, exec_annotations


def accept(pn):
    p = units.PARTS[pn]
    e, fired = gen.extract_part(p, units.REPO)
    tp, e0p = gen.tmpl_paths(p)
    ptxt = open(tp).read()
    w = weave(e, e, ptxt)
    open(e0p, 'w').write(e)
    bad = unbalanced_annotations(e, ptxt)
    for b in bad:
        print('  warning: unbalanced annotation run at %s:%d: %s' % (tp, b[0], b[1]))
    for b in exec_annotations(e, ptxt):
        print('  LINT: executable `let` inserted by the template at %s:%d: %s' % (tp, b[0], b[1]))
    print('accepted %s: code tokens %d, annotation tokens %d, rules %s' % (pn, w.code_tokens, w.annot_tokens, dict(fired)))


def main():
    cmd = sys.argv[1]
    if cmd == 'e0':
        e, fired = gen.extract_part(units.PARTS[sys.argv[2]], units.REPO)
        sys.stdout.write(e)
        sys.stderr.write(repr(dict(fired)) + '\n')
    elif cmd == 'init':
        pn = sys.argv[2]
        p = units.PARTS[pn]
        tp, e0p = gen.tmpl_paths(p)
        if os.path.exists(tp) and '--force' not in sys.argv:
            sys.exit('%s exists' % tp)
        e, fired = gen.extract_part(p, units.REPO)
        tmp = '/tmp/_e0_%s.rs' % pn
        open(tmp, 'w').write(e)
        probes = [a for a in sys.argv[3:] if not a.startswith('--')]
        r = subprocess.run([sys.executable, os.path.join(os.path.dirname(__file__), 'graft.py'), tmp] + probes,
                           capture_output=True, text=True)
        sys.stderr.write(r.stderr)
        os.makedirs(os.path.dirname(tp), exist_ok=True)
        open(tp, 'w').write(r.stdout)
        print('wrote', tp)
    elif cmd == 'sync':
        # carry the annotations over to a changed extraction (rule change or upstream change), then pin it
        for pn in sys.argv[2:]:
            pp = units.PARTS[pn]
            e, fired = gen.extract_part(pp, units.REPO)
            tp, e0p = gen.tmpl_paths(pp)
            w = weave(e, open(e0p).read(), open(tp).read())
            open(tp, 'w').write(w.text)
            print('synced %s: new=%d removed=%d' % (pn, w.new_tokens, w.removed_tokens))
            accept(pn)
    elif cmd == 'accept':
        for pn in sys.argv[2:]:
            accept(pn)
    elif cmd == 'accept-all':
        for pn in units.PARTS:
            accept(pn)


if __name__ == '__main__':
    main()
