"""Which obligations decide which property.

For every property: the builds to generate, the modules to verify in each, and selectors (module regex, function
regex) naming the functions whose obligations serve the property.  `kinds` restricts which failure kinds count for
the property (None = all code-level kinds).  Kani harness lists are in kani/harnesses.py.
"""

G = r'arch::generic::memchr'
X86 = r'arch::x86_64::(sse2|avx2)::memchr'
SWAR = r'arch::all::memchr'
TOP = r'memchr'
LEAF = [(r'^ext$', r'.*'), (r'^vector(::.*)?$', r'.*'), (r'^vbase$', r'.*')]

FWD = r'(new|new_unchecked|is_available|needle\d|clone|find|find_raw|find_raw_impl|find_raw_sse2|find_raw_avx2|search_chunk|has_needle|confirm|try_new)'
REV = r'(new|new_unchecked|is_available|needle\d|clone|rfind|rfind_raw|rfind_raw_impl|rfind_raw_sse2|rfind_raw_avx2|search_chunk|has_needle|confirm|try_new)'
CNT = r'(new|new_unchecked|is_available|needle\d|clone|count|count_raw|count_raw_impl|count_raw_sse2|count_raw_avx2|confirm)'
ITER = r'(iter|next|next_back|size_hint|count|new|into_owned)'

MEMKINDS = ('precondition',)       # filtered further by clause text (memory-model preconditions)
PANICKINDS = ('arithmetic', 'bounds', 'assertion', 'precondition', 'recommends')

PROPS = {
    'C01': dict(
        level='proof',
        builds=[dict(build='main', modules=['ext', 'vector', 'arch::generic::memchr', 'arch::x86_64', 'arch::all::memchr', 'memchr'],
                     select=LEAF + [(G, r'(One|Two|Three)::' + FWD), (G, r'(fwd_byte_by_byte|search_slice_with_raw|hint\d?|nohint|nohit\d|lemma_.*)'),
                                    (X86, r'(One|Two|Three)::' + FWD), (SWAR, r'(One|Two|Three)::' + FWD), (SWAR, r'(splat|has_zero_byte|lemma_.*)'),
                                    (r'^memchr$', r'(memchr|memchr2|memchr3|memchr_raw|memchr2_raw|memchr3_raw)'),
                                    (r'arch::x86_64::memchr', r'(memchr|memchr2|memchr3)_raw.*')])],
        kinds=('postcondition', 'precondition', 'trait-contract', 'invariant', 'decreases'),
    ),
    'C02': dict(
        level='proof',
        builds=[dict(build='main', modules=['ext', 'vector', 'arch::generic::memchr', 'arch::x86_64', 'arch::all::memchr', 'memchr'],
                     select=LEAF + [(G, r'(One|Two|Three)::' + REV), (G, r'(rev_byte_by_byte|search_slice_with_raw|rhint\d?|nohint|nohit\d|lemma_.*)'),
                                    (X86, r'(One|Two|Three)::' + REV), (SWAR, r'(One|Two|Three)::' + REV), (SWAR, r'(splat|has_zero_byte|lemma_.*)'),
                                    (r'^memchr$', r'(memrchr|memrchr2|memrchr3|memrchr_raw|memrchr2_raw|memrchr3_raw)'),
                                    (r'arch::x86_64::memchr', r'(memrchr|memrchr2|memrchr3)_raw.*')])],
        kinds=('postcondition', 'precondition', 'trait-contract', 'invariant', 'decreases'),
    ),
}

COMMON_ASSUMPTIONS = [
    'A1 pointer/memory model of prelude/vbase.vrs: address = integer, provenance ignored, memory reachable through the given slices is immutable during a call',
    'A4 little-endian composition of multi-byte unaligned loads; usize = 64 bit',
    'A5 std specs assumed in the prelude (assume_specification items listed in trusted_base)',
    'A7 the extractor rules X1-X12 (tool/xform.py) preserve semantics; Verus, Z3 are trusted',
]
