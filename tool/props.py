"""Which obligations decide which property.

For every property: the builds to generate, the modules to verify in each, and selectors (module regex, function
regex) naming the functions whose obligations serve the property.  A function name is `Type::fn`, `fn`, or
`outer_fn::nested_fn`.  `kinds` restricts which failure kinds count for the property.
"""

# ---- module regexes
G = r'^arch::generic::memchr$'
X86 = r'^arch::(x86_64::(sse2|avx2)|aarch64::neon|wasm32::simd128)::memchr$'
SWAR = r'^arch::all::memchr$'
DISP = r'^arch::(x86_64|aarch64|wasm32)::memchr$'
TOP = r'^memchr$'
EQ = r'^arch::all$'
RK = r'^arch::all::rabinkarp$'
TW = r'^arch::all::twoway$'
SO = r'^arch::all::shiftor$'
APP = r'^arch::all::packedpair(::default_rank)?$'
GPP = r'^arch::generic::packedpair$'
XPP = r'^arch::(x86_64::(sse2|avx2)|aarch64::neon|wasm32::simd128)::packedpair$'
PRE = r'^memmem::searcher$'
MM = r'^memmem$'
COW = r'^cow$'
LEAF = [(r'^ext$', r'.*'), (r'^vector$', r'.*'), (r'^vbase$', r'.*'), (r'^isa$', r'.*')]
LEMMAS = r'(lemma_.*|hint\d?|rhint\d?|nohint|nohit\d?)'

S = r'(One|Two|Three)::'
COMMON = r'(new|new_unchecked|is_available|try_new|needle[123]|clone|has_needle|confirm|search_chunk)'
FWD = S + r'(' + COMMON + r'|find|find_raw|find_raw_impl|find_raw_sse2|find_raw_avx2)'
REV = S + r'(' + COMMON + r'|rfind|rfind_raw|rfind_raw_impl|rfind_raw_sse2|rfind_raw_avx2)'
CNT = r'One::(' + COMMON + r'|count|count_raw|count_raw_impl|count_raw_sse2|count_raw_avx2)'
ITERS = r'(OneIter|TwoIter|ThreeIter|Iter|Memchr|Memchr2|Memchr3)::.*'

# a function that panics (index, overflow in a debug build, failed assertion) does not "return exactly X" either, so
# the obligations that exclude panics count for the functional properties as well (they used to be left to C14 alone)
FUNCTIONAL = ('postcondition', 'precondition', 'trait-contract', 'invariant', 'decreases', 'arithmetic', 'bounds', 'assertion', 'recommends')
PANIC = ('arithmetic', 'bounds', 'assertion', 'recommends', 'precondition', 'decreases')

MAIN_MODS_MEMCHR = ['ext', 'vector', 'vbase', 'arch::generic::memchr', 'arch::x86_64::sse2::memchr', 'arch::x86_64::avx2::memchr',
                    'arch::all::memchr', 'arch::x86_64::memchr', 'memchr']
MAIN_MODS_SUB = ['ext', 'vector', 'vbase', 'arch::all', 'arch::all::rabinkarp', 'arch::all::twoway', 'arch::all::shiftor', 'x_twc', 'x_so', 'memmem', 'cow', 'x_memmem', 'x_meta', 'arch::all::packedpair',
                 'arch::generic::packedpair', 'arch::x86_64::sse2::packedpair', 'arch::x86_64::avx2::packedpair',
                 'memmem::searcher', 'x_pp', 'x_eqrk', 'x_tw']

SEL_C01 = LEAF + [(G, FWD), (G, r'(fwd_byte_by_byte|search_slice_with_raw)'), (G, LEMMAS), (X86, FWD), (X86, LEMMAS),
                  (SWAR, FWD), (SWAR, r'(splat|has_zero_byte|LO|HI)'), (SWAR, LEMMAS),
                  (DISP, r'memchr[23]?_raw(::.*)?'), (TOP, r'(memchr[23]?|memchr[23]?_raw)')]
SEL_C02 = LEAF + [(G, REV), (G, r'(rev_byte_by_byte|search_slice_with_raw)'), (G, LEMMAS), (X86, REV), (X86, LEMMAS),
                  (SWAR, REV), (SWAR, r'(splat|has_zero_byte|LO|HI)'), (SWAR, LEMMAS),
                  (DISP, r'memrchr[23]?_raw(::.*)?'), (TOP, r'(memrchr[23]?|memrchr[23]?_raw)')]
SEL_C07 = LEAF + [(G, CNT), (G, r'(count_byte_by_byte|count_hits|Iter::count)'), (G, LEMMAS), (X86, CNT), (X86, r'OneIter::count'),
                  (X86, LEMMAS), (SWAR, CNT), (SWAR, r'OneIter::count'), (SWAR, LEMMAS), (DISP, r'count_raw(::.*)?'),
                  (TOP, r'(count_raw|Memchr::count)')]
SEL_C06 = LEAF + [(G, r'Iter::.*'), (X86, ITERS), (X86, S + r'iter'), (SWAR, ITERS), (SWAR, S + r'iter'),
                  (TOP, r'(Memchr|Memchr2|Memchr3)::.*'), (TOP, r'mem(r)?chr[23]?_iter'), (r'^vbase::revx$', r'.*'), (r'^hist$', r'.*')]
PTR_MODS = [G, X86, SWAR, DISP, TOP, EQ, RK, GPP, XPP, APP, r'^ext$', r'^vector$', PRE]
SEL_C05 = [(m, r'.*') for m in PTR_MODS]
SEL_RK_F = [(RK, r'(Finder::(new|find|find_raw)|Hash::.*|is_fast|is_equal_raw)'), (RK, LEMMAS), (EQ, r'.*')]
SEL_RK_R = [(RK, r'(FinderRev::(new|rfind|rfind_raw)|Hash::.*|is_fast|is_equal_raw)'), (RK, LEMMAS), (EQ, r'.*')]
SEL_PP_FIND = [(GPP, r'Finder::(new|find|find_in_chunk|matched|min_haystack_len|pair)'), (GPP, LEMMAS), (XPP, r'Finder::(new|with_pair|with_pair_impl|find|find_impl|min_haystack_len|pair|is_available)'),
               (r'^x_pp$', r'.*'), (EQ, r'.*')]
SEL_PP_PRE = [(GPP, r'Finder::(new|find_prefilter|find_prefilter_in_chunk|matched|min_haystack_len|pair)'), (GPP, LEMMAS),
              (XPP, r'Finder::(new|with_pair|with_pair_impl|find_prefilter|find_prefilter_impl|min_haystack_len|pair|is_available)'),
              (APP, r'Finder::(new|with_pair|find_prefilter|pair)'), (APP, r'Pair::(index1|index2)'), (r'^x_pp$', r'.*'),
              (PRE, r'Prefilter::find_simple')]
SEL_TW_F = [(TW, r'(Finder::.*|Shift::forward|Suffix::forward|SuffixKind::cmp|ApproximateByteSet::.*|TwoWay::.*)'), (TW, LEMMAS), (r'^x_twc$', r'.*'),
            (PRE, r'(Pre|PrefilterState)::.*'), (EQ, r'(is_prefix|is_equal|is_equal_raw)')]
SEL_TW_R = [(TW, r'(FinderRev::.*|Shift::reverse|Suffix::reverse|SuffixKind::cmp|ApproximateByteSet::.*|TwoWay::.*)'), (TW, LEMMAS), (r'^x_twc$', r'.*'),
            (EQ, r'(is_suffix|is_equal|is_equal_raw)')]
SEL_MM_F = [(MM, r'(find|find_iter|Finder::.*|FinderBuilder::.*)'), (COW, r'.*'), (r'^x_memmem$', r'.*'), (PRE, r'PrefilterConfig::.*')]
SEL_MM_R = [(MM, r'(rfind|rfind_iter|FinderRev::.*|FinderBuilder::build_reverse)'), (COW, r'.*'), (r'^x_memmem$', r'.*'),
            (PRE, r'SearcherRev::.*')]

SEL_GLUE_S = [(PRE, r'(searcher_kind_.*|Searcher::.*)')]
SEL_GLUE_P = [(PRE, r'(prefilter_kind_.*|Prefilter::.*|Pre::.*|PrefilterState::.*|do_packed_search)')]
SEL_SUB_F = SEL_RK_F + SEL_PP_FIND + SEL_PP_PRE + SEL_TW_F + SEL_GLUE_S + SEL_GLUE_P + SEL_C01 + [(APP, r'(Pair::.*|Finder::(new|with_pair|pair))')]
SEL_SUB_R = SEL_RK_R + SEL_TW_R + SEL_C02

A_GLUE = 'A2b rule X15 (defunctionalisation): the fn-pointer types SearcherKindFn/PrefilterKindFn are rewritten into enums of the fn items of the file and the call through the pointer into a match (closed world of values; the rewrite is mechanical and trusted); with it Searcher::{new,twoway,find} and Prefilter::{fallback,sse2,avx2,find} are VERIFIED; derived Clone of Searcher/SearcherRev is assumed to copy (r == *self)'
A_TW = 'Two-Way completeness IS proved (critical-factorisation theorem and maximal-suffix correctness in prelude/x_twc.vrs; constructors establish wf_cf); the bounded Kani Two-Way harnesses remain as an independent cross-check in the thorough tier'
A_GLUE_OLD = 'A6 calling through the fn pointers of the meta searcher (Searcher::find/new, Prefilter::find and its constructors, i.e. the pairing of `call` with the active union field) is represented by an assumed contract; the union-reading glue functions searcher_kind_* / prefilter_kind_* themselves ARE proved; the fn-pointer hop is executed only by the bounded Kani glue harnesses'
A_DISP = 'A2 unsafe_ifunc! dispatcher: finally calls one of find_avx2/find_sse2/find_fallback (each verified) with the same arguments (rule X6; AtomicPtr/transmute/cpuid not verified)'
A_LEAF = 'A3 x86 Vector leaf impls are external_body in Verus, closed by loop-free full-domain Kani harnesses (trusting Kani\'s SSE2/AVX2 intrinsic models); the NEON and wasm32 Vector impls are VERIFIED against per-instruction intrinsic specifications in prelude/isa.vrs, which are a trusted ISA model (no Kani cross-check possible on this host)'
A_CTOR = 'iterator-adapter loops (Rabin-Karp constructors, Pair::with_ranker, ApproximateByteSet::new, Shift-Or) are verified after the mechanical desugaring rule X14 (std slice-iterator adaptor semantics: iter/rev/copied/skip/take/enumerate are trusted as encoded there); bounded Kani harnesses cross-check them in the thorough tier'

K_LEAF = [dict(name='leaf_sse2'), dict(name='leaf_avx2'), dict(name='leaf_sse2_aligned_load'), dict(name='leaf_avx2_aligned_load')]
K_POP = [dict(name='leaf_count_ones_spec')]
K_TW_F = [dict(name='bounded_twoway_fwd_n4_h7', bounded=True, bound='needle<=4, haystack<=7, all byte values', tier='thorough', timeout=1500),
          dict(name='bounded_twoway_fwd_n5_h9', bounded=True, bound='needle<=5, haystack<=9', tier='thorough', timeout=1800)]
K_TW_R = [dict(name='bounded_twoway_rev_n3_h6', bounded=True, bound='needle<=3, haystack<=6, all byte values', tier='thorough', timeout=1500),
          dict(name='bounded_twoway_rev_n4_h7', bounded=True, bound='needle<=4, haystack<=7', tier='thorough', timeout=1800),
          dict(name='bounded_twoway_rev_n5_h9', bounded=True, bound='needle<=5, haystack<=9', tier='thorough', timeout=1800)]
K_RK_F = [dict(name='bounded_rabinkarp_fwd_n4_h8', bounded=True, bound='needle<=4, haystack<=8', tier='thorough', timeout=1500)]
K_RK_R = [dict(name='bounded_rabinkarp_rev_n4_h8', bounded=True, bound='needle<=4, haystack<=8', tier='thorough', timeout=1500)]
K_SO = [dict(name='bounded_shiftor_n4_h8', bounded=True, bound='needle<=4, haystack<=8', tier='thorough', timeout=1500),
        dict(name='bounded_shiftor_unsupported_len', bounded=True, bound='needle<=17', tier='thorough', timeout=900)]
K_PAIR = [dict(name='bounded_pair_with_ranker_n24', bounded=True, bound='needle<=24, fully symbolic 256-entry ranker', tier='thorough', timeout=1500),
          dict(name='bounded_pair_default_ranker_long_tail', bounded=True, bound='needle length 254..=260 (253 fixed bytes + 6 symbolic), default ranker', tier='thorough', timeout=1800),
          dict(name='bounded_pair_with_ranker_long_tail', bounded=True, bound='needle length 250..=260 (252 fixed + 8 symbolic bytes), fully symbolic ranker', tier='thorough', timeout=1800)]
K_GLUE = [dict(name='bounded_glue_fwd_sse2_n2_h4', bounded=True, bound='needle=2 bytes, haystack<=4, AVX2 stubbed unavailable (fn-pointer pairing of Searcher::new/find on the SSE2 strategy)', tier='thorough', timeout=900),
          dict(name='bounded_glue_sse2_n2_h19', bounded=True, bound='needle<=2, haystack<=19, symbolic ranker and PrefilterConfig, AVX2 stubbed off', tier='thorough', timeout=900)]
K_GLUE_R = [dict(name='bounded_glue_rev_n3_h6', bounded=True, bound='needle<=3, haystack<=6', tier='thorough', timeout=1500)]
K_TWPRE = [dict(name='bounded_twoway_prefilter_fwd_n3_h7', bounded=True, bound='needle 2..=3, haystack<=7, Two-Way with the portable prefilter', tier='thorough', timeout=900)]

def others(select, mods=None, with32=True):
    """the same selection on the builds for the other targets (text the x86_64 host never compiles) and for 32-bit usize"""
    return [dict(build=b, modules=None, select=select) for b in (('aarch64', 'wasm32', 'other', 'other32') if with32 else ('aarch64', 'wasm32', 'other'))]


PROPS = {
    'C01': dict(level='proof', kinds=FUNCTIONAL, kani=K_LEAF,
                builds=[dict(build='main', modules=MAIN_MODS_MEMCHR, select=SEL_C01)] + others(SEL_C01),
                assumptions=[A_DISP, A_LEAF]),
    'C02': dict(level='proof', kinds=FUNCTIONAL, kani=K_LEAF,
                builds=[dict(build='main', modules=MAIN_MODS_MEMCHR, select=SEL_C02)] + others(SEL_C02),
                assumptions=[A_DISP, A_LEAF]),
    'C03': dict(explore=True, level='proof', kinds=FUNCTIONAL, kani=K_LEAF + K_TW_F + K_RK_F + K_GLUE + K_TWPRE,
                builds=[dict(build='main', modules=MAIN_MODS_SUB + MAIN_MODS_MEMCHR, select=SEL_MM_F + SEL_SUB_F)] + others(SEL_MM_F + SEL_SUB_F),
                explanation='memmem::find, Finder::{new,find}, FinderBuilder, Searcher::{new,twoway,find} (fn pointers defunctionalised, X15), '
                            'every searcher_kind_* and every engine (one-byte = memchr; packed-pair find; Rabin-Karp incl. constructors; '
                            'Two-Way incl. completeness) are discharged by Verus in ONE unit: the postcondition of memmem::find is the property',
                assumptions=[A_GLUE, A_TW, A_CTOR, A_LEAF, A_DISP]),
    'C04': dict(explore=True, level='proof', kinds=FUNCTIONAL, kani=K_TW_R + K_RK_R + K_GLUE_R,
                builds=[dict(build='main', modules=MAIN_MODS_SUB + MAIN_MODS_MEMCHR, select=SEL_MM_R + SEL_SUB_R)] + others(SEL_MM_R + SEL_SUB_R),
                explanation='memmem::rfind, FinderRev::{new,rfind} and SearcherRev::{new,rfind} (a plain enum, no fn pointer) are proved against '
                            'the real reverse engines (Rabin-Karp reverse, Two-Way reverse incl. completeness, memrchr), all proved in this run',
                assumptions=[A_TW, A_CTOR, A_DISP, A_LEAF]),
    'C05': dict(level='proof', kinds=('precondition', 'postcondition', 'invariant'), mem_only=True, kani=K_LEAF,
                builds=[dict(build='main', modules=None, select=SEL_C05),
                        dict(build='safe', modules=None, select=SEL_C05)] + others(SEL_C05),
                explanation='every read/read_unaligned/load_*/add/sub/offset/offset_from in the extracted units carries a readable-range / '
                            'in-bounds / alignment precondition (prelude/vbase.vrs) that Verus discharges at each call site; the packed-pair '
                            'finders are additionally verified in the S variant (release semantics, type invariant only, any needle)',
                assumptions=[A_DISP, A_LEAF, 'Two-Way and Shift-Or use safe indexing only (their index obligations are C14)']),
    'C06': dict(level='proof', kinds=FUNCTIONAL, kani=[],
                builds=[dict(build='main', modules=MAIN_MODS_MEMCHR + ['hist'], select=SEL_C06 + SEL_C01 + SEL_C02 + SEL_C07)] + others(SEL_C06 + SEL_C01 + SEL_C02 + SEL_C07),
                explanation='per-operation window contracts on the real next/next_back/size_hint/count + a spec-level history machine '
                            '(prelude/hist.vrs) whose inductive lemmas give freshness, order, completeness and fusedness for every call order',
                assumptions=['std Iterator/DoubleEndedIterator trait headers dropped (X7): methods verified as inherent fns; the three memrchrN_iter Rev adapters are not extracted', A_DISP]),
    'C07': dict(level='proof', kinds=FUNCTIONAL, kani=K_LEAF + K_POP,
                builds=[dict(build='main', modules=MAIN_MODS_MEMCHR, select=SEL_C07)] + others(SEL_C07),
                assumptions=[A_DISP, A_LEAF, 'u32::count_ones / u64::count_ones specs (popcount) assumed in Verus; the u32 one is cross-checked by Kani harness leaf_count_ones_spec']),
    'C08': dict(explore=True, level='proof', kinds=FUNCTIONAL, kani=K_TW_F + K_TW_R,
                builds=[dict(build='main', modules=MAIN_MODS_SUB + MAIN_MODS_MEMCHR,
                             select=[(MM, r'(FindIter|FindRevIter)::.*'), (MM, r'(find_iter|rfind_iter)'), (MM, r'(Finder|FinderRev)::.*'),
                                     (r'^x_memmem$', r'.*')] + SEL_SUB_F + SEL_SUB_R)]
                + others([(MM, r'(FindIter|FindRevIter)::.*'), (MM, r'(find_iter|rfind_iter)'), (MM, r'(Finder|FinderRev)::.*'), (r'^x_memmem$', r'.*')] + SEL_SUB_F + SEL_SUB_R),
                explanation='FindIter/FindRevIter next and size_hint are proved to realise the greedy sequence for every PrefilterState, on top '
                            'of the proved Searcher / SearcherRev contracts in the same unit',
                assumptions=[A_GLUE, A_TW]),
    'C09': dict(explore=True, level='proof', kinds=FUNCTIONAL, kani=K_LEAF,
                builds=[dict(build='main', modules=None, select=SEL_C01 + SEL_C02 + SEL_C07 + SEL_SUB_F + SEL_SUB_R + SEL_MM_F + SEL_MM_R)]
                + others(SEL_C01 + SEL_C02 + SEL_C07 + SEL_SUB_F + SEL_SUB_R + SEL_MM_F + SEL_MM_R),
                explanation='corollary: SWAR (64- and 32-bit usize), SSE2, AVX2, NEON and wasm32 simd128 implementations, every dispatcher '
                            'target and every strategy of the meta searcher are proved against one functional specification with a unique answer',
                assumptions=[A_DISP, A_LEAF, A_GLUE, 'cargo features (std/alloc/none) and compile-time +avx2 only change is_available() arms, which carry no '
                                                     'postcondition on x86 (every outcome covered); is_available of NEON/simd128 is proved true under its cfg; each '
                                                     'target\'s arm of Searcher::new is verified in that target\'s unit (main / aarch64 / wasm32 / other / other32)']),
    'C10': dict(explore=True, level='proof', kinds=FUNCTIONAL, kani=K_GLUE + K_PAIR + K_TWPRE,
                builds=[dict(build='main', modules=MAIN_MODS_SUB + MAIN_MODS_MEMCHR, select=SEL_MM_F + SEL_SUB_F + [(PRE, r'.*')])] + others(SEL_MM_F + SEL_SUB_F + [(PRE, r'.*')]),
                explanation='Searcher::new ensures built_for(needle) for EVERY PrefilterConfig and every ranker R (Pair::with_ranker is generic), '
                            'Searcher::find ensures is_leftmost for every PrefilterState; Two-Way with a prefilter is exact for every prefilter '
                            'built for the needle; so configuration, ranker and adaptive state cannot change a result',
                assumptions=[A_GLUE, A_TW, A_CTOR]),
    'C11': dict(level='proof', kinds=FUNCTIONAL, kani=K_LEAF,
                builds=[dict(build='main', modules=MAIN_MODS_SUB + MAIN_MODS_MEMCHR, select=SEL_PP_PRE + SEL_GLUE_P + SEL_C01)] + others(SEL_PP_PRE + SEL_GLUE_P + SEL_C01),
                assumptions=[A_LEAF, A_GLUE]),
    'C12': dict(explore=True, level='proof', kinds=FUNCTIONAL, kani=K_TW_F + K_TW_R + K_RK_F + K_RK_R + K_SO,
                builds=[dict(build='main', modules=MAIN_MODS_SUB, select=SEL_RK_F + SEL_RK_R + SEL_PP_FIND + SEL_TW_F + SEL_TW_R + [(SO, r'.*'), (r'^x_so$', r'.*')])] + others(SEL_RK_F + SEL_RK_R + SEL_PP_FIND + SEL_TW_F + SEL_TW_R + [(SO, r'.*'), (r'^x_so$', r'.*')]),
                explanation='every block is proved exact on its documented domain: packed-pair find, Rabin-Karp (search and constructors), '
                            'Two-Way forward/reverse (incl. completeness via the critical-factorisation theorem), Shift-Or (bit-parallel automaton)',
                assumptions=[A_TW, A_CTOR, A_LEAF]),
    # `also`: (kind, function regex, clause regex) counted in addition: loop invariants that are numeric bounds (they are
    # what discharges index/overflow obligations later in the loop) and the postcondition of min_haystack_len (the
    # documented panic is specified relative to it)
    'C14': dict(level='proof', kinds=PANIC, non_mem=True, kani=[],
                also=[('invariant', r'.*', r'(<=|>=|<|>)'), ('postcondition', r'min_haystack_len$', r'.*')],
                builds=[dict(build='main', modules=None, select=[(r'.*', r'.*')])] + others([(r'.*', r'.*')]),
                explanation='every debug_assert (X3), assert (X4, pinned to the documented precondition both ways), index, slice, subtraction, '
                            'shift, unwrap and loop termination in the extracted units is an obligation discharged by Verus',
                assumptions=[A_CTOR, A_GLUE]),
    'C16': dict(explore=True, level='proof', kinds=FUNCTIONAL, kani=[],
                builds=[dict(build='main', modules=MAIN_MODS_SUB + MAIN_MODS_MEMCHR,
                             select=[(MM, r'(Finder|FinderRev|FindIter|FindRevIter)::.*'), (COW, r'.*')] + SEL_SUB_F + SEL_SUB_R)]
                + others([(MM, r'(Finder|FinderRev|FindIter|FindRevIter)::.*'), (COW, r'.*')] + SEL_SUB_F + SEL_SUB_R),
                explanation='the result is determined by (needle, haystack) because Finder::find creates a fresh PrefilterState and Searcher::find '
                            'is proved exact for every state; as_ref/into_owned/needle contracts proved; derived Clone of the front-end types '
                            'carries no Verus spec except the assumed r == *self for Searcher/SearcherRev',
                assumptions=[A_GLUE, 'Box<[u8]>::from(&[u8]) content spec assumed']),
    # C17: heap allocation as a permission.  The std allocating constructors are redirected (rule X16) to prelude wrappers that
    # `require may_alloc()`, an uninterpreted fact no function can establish; only functions that declare the permission
    # themselves (into_owned of CowBytes / Finder / FinderRev / FindIter / FindRevIter, Shift-Or Finder::new) may reach them.
    'C17': dict(explore=True, level='proof', kinds=('precondition',), clause_only=r'may_alloc', alloc_scan=True, perm_canary=True, kani=[],
                builds=[dict(build='main', modules=None, select=[(r'.*', r'.*')])] + others([(r'.*', r'.*')]),
                explanation='every function of the crate is verified without the allocation permission except the owning conversions and the '
                            'Shift-Or constructor, which declare it; a call that can reach a heap allocator from any other function fails the '
                            'precondition `may_alloc()` of the allocator wrapper or of the permitted function it goes through',
                assumptions=['A8 rule X16: calls of Box::from / Box::new / Vec::new / Vec::with_capacity / .to_vec() are redirected to prelude wrappers '
                             '(same value, assumed functional spec, plus `requires may_alloc()`); other std allocating constructs are not modelled: '
                             'a token scan of the extracted code reports any (vec!, format!, String, Rc, Arc, collections, to_owned, collect, other '
                             'Box::/Vec:: paths) as undecided, and Verus rejects calls of std functions it has no specification for',
                             'derived Clone of an OWNED Finder/CowBytes allocates; the property speaks of finders built from a borrowed needle, whose Clone copies a reference',
                             'allocation inside std/core functions that have a Verus specification but do not allocate by contract (none is known among those the crate calls) is not observed',
                             A_DISP]),
    'C18': dict(level='proof', kinds=FUNCTIONAL, kani=[],
                builds=[dict(build='main', modules=['ext', 'vbase', 'arch::all'], select=[(EQ, r'.*'), (r'^ext$', r'.*'), (r'^vbase$', r'.*')]),
                        dict(build='other32', modules=['ext', 'vbase', 'arch::all'], select=[(EQ, r'.*'), (r'^ext$', r'.*'), (r'^vbase$', r'.*')])],
                assumptions=[]),
    'C19': dict(explore=True, level='proof', kinds=FUNCTIONAL, kani=K_PAIR,
                builds=[dict(build='main', modules=MAIN_MODS_SUB, select=[(APP, r'(Pair::.*|Finder::(new|with_pair|pair))'),
                                                                          (GPP, r'Finder::(new|pair|min_haystack_len)'),
                                                                          (XPP, r'Finder::(new|with_pair|with_pair_impl|pair|min_haystack_len)')])] + others([(APP, r'(Pair::.*|Finder::(new|with_pair|pair))'), (GPP, r'Finder::(new|pair|min_haystack_len)'), (XPP, r'Finder::(new|with_pair|with_pair_impl|pair|min_haystack_len)')]),
                explanation='Pair::with_ranker (for every ranker: generic R), Pair::new, with_indices, accessors and the finders\' '
                            'new/with_pair/pair/min_haystack_len are proved',
                assumptions=[A_CTOR]),
}

COMMON_ASSUMPTIONS = [
    'A1 pointer/memory model of prelude/vbase.vrs: address = integer, provenance ignored, memory reachable through the given slices is immutable during a call',
    'A4 little-endian composition of multi-byte unaligned loads; usize is 64 bit in the main/aarch64/wasm32/other units and 32 bit in other32',
    'A5 std specs assumed in the prelude (assume_specification items listed in trusted_base)',
    'A7 the extractor rules X0-X17 (tool/xform.py, tool/units.py) preserve semantics; Verus, Z3, Kani, CBMC are trusted',
]

TITLES = {}
