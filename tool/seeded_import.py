#!/usr/bin/env python3
"""Import confirmed sub-agent mutants into seeded/<id>/ (patch.diff, demo, meta.json). Development helper."""
import json, os, re, shutil, sys
conf = {}
for l in open(sys.argv[1]):
    m = re.match(r'(C\d+)-(\d+) \| base: (.*?) \| suite: (.*?) \| with: (.*)', l.strip())
    if m:
        conf['%s-%s' % (m.group(1), m.group(2))] = dict(demo_on_head=m.group(3), suite_with_change=m.group(4), demo_with_change=m.group(5))
for key, c in sorted(conf.items()):
    pid, k = key.split('-')
    src = '/tmp/mut/%s/_out/%s' % (pid, k)
    ok = ('ok.' in c['demo_on_head']) and ('141 passed; 0 failed' in c['suite_with_change']) and ('FAILED' in c['demo_with_change'] or 'signal' in c['demo_with_change'])
    if not ok:
        print('NOT CONFIRMED', key, c)
        continue
    k2 = str(int(k) + int(os.environ.get('OFFSET', '0')))
    key = '%s-%s' % (pid, k2)
    dst = '/verif/seeded/%s' % key
    os.makedirs(dst, exist_ok=True)
    for f in os.listdir(src):
        shutil.copy(os.path.join(src, f), dst)
    notes = open(os.path.join(src, 'notes.md')).read() if os.path.exists(os.path.join(src, 'notes.md')) else ''
    meta_p = os.path.join(dst, 'meta.json')
    meta = json.load(open(meta_p)) if os.path.exists(meta_p) else {}
    meta.update(dict(id=key, breaks_property=pid, origin='independent sub-agent given only the property text and a scratch worktree',
                     needs_to_manifest=(re.search(r'(?is)(needs?[^\n]*\n(?:.*\n){0,6})', notes) or [None, ''])[1].strip()[:800],
                     confirmed=dict(ran='cargo test --offline --lib (141 tests) with the change; demo test with and without the change, in a scratch worktree',
                                    **c)))
    json.dump(meta, open(meta_p, 'w'), indent=1)
    print('imported', key)
