#!/bin/sh
# usage: tool/try_mutant.sh <patch.diff> <prop> [<prop>...]   (development helper: apply, run checks without Kani, revert)
P="$1"; shift
git -C /repo apply "$P" || { echo "patch does not apply"; exit 3; }
for id in "$@"; do
  VERIF_NO_KANI=1 VERIF_NO_CANARY=1 VERIF_WORK=/tmp/vwork_mut VERIF_EVIDENCE_DIR=/tmp/vwork_mut/evidence ./check "$id" 2>&1 | grep -E "^(VIOLATION|UNDECIDED|OK|obligation failed|KNOWN)" | cut -c1-330
  echo "  -> exit $?"
done
git -C /repo checkout -- .
