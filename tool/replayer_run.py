"""Bridge to the concrete replayer (searches a failing input against the real crate). Filled in later."""


def search(pid, violation, seed):
    return None


def replay(pid, rec):
    return True
