"""Bridge to the concrete replayer (replayer/): builds it against the current working tree of the repo, searches a
failing input for a property family, and re-executes recorded inputs."""
import json
import os
import subprocess
import time

import units

RDIR = os.path.join(units.VERIF, 'replayer')
BIN = os.path.join(RDIR, 'target', 'debug', 'replayer')
FAMILY = {'C01': ['byte'], 'C02': ['byte'], 'C06': ['byte'], 'C07': ['byte'], 'C09': ['byte', 'sub'],
          'C05': ['bytemem', 'submem'], 'C14': ['byte', 'sub'], 'C18': ['sub'], 'C17': ['alloc']}
_built = False


def build():
    global _built
    if _built:
        return True
    lock = os.path.join(units.REPO, 'Cargo.lock')
    if os.path.exists(lock):
        try:
            open(os.path.join(RDIR, 'Cargo.lock'), 'w').write(open(lock).read())
        except OSError:
            pass
    env = dict(os.environ, CARGO_NET_OFFLINE='true')
    pr = subprocess.run(['cargo', 'build', '--offline'], cwd=RDIR, capture_output=True, text=True, env=env)
    _built = pr.returncode == 0
    return _built


def search(pid, violation, seed, budget_ms=None):
    """-> dict(failing_input=..., note=...) or None"""
    if os.environ.get('VERIF_NO_REPLAYER'):
        return None
    if not build():
        return dict(failing_input=None, note='no-failing-input-found (replayer does not build against this tree)')
    budget = budget_ms or int(os.environ.get('VERIF_REPLAY_BUDGET_MS', '12000'))
    fams = FAMILY.get(pid, ['sub'])
    for fam in fams:
        casefile = os.path.join(units.VERIF, 'work', 'replayer_case_%s.txt' % fam)
        os.makedirs(os.path.dirname(casefile), exist_ok=True)
        try:
            os.remove(casefile)
        except OSError:
            pass
        args = [BIN, 'search', fam, str(seed + 1), str(budget // len(fams))]
        if fam.endswith('mem'):
            args.append(casefile)
        pr = subprocess.run(args, capture_output=True, text=True)
        line = pr.stdout.strip().split('\n')[-1] if pr.stdout.strip() else ''
        if pr.returncode < 0 or (pr.returncode != 0 and not line):
            # crashed (e.g. SIGSEGV on a guard page): the case file names the culprit
            try:
                f, n, h, a, v = open(casefile).read().split(' ')
            except Exception:
                continue
            return dict(failing_input=dict(family=f, needle=n, haystack=h, align=int(a), variant=int(v),
                                           message='process killed by signal %d while executing this case' % (-pr.returncode)),
                        note='concrete failing input found by the replayer')
        try:
            j = json.loads(line)
        except Exception:
            continue
        if j.get('fail'):
            return dict(failing_input=dict(family=j['family'], needle=j['needle'], haystack=j['haystack'], align=j['align'],
                                           variant=j['variant'], message=j['fail']),
                        note='concrete failing input found by the replayer')
    return dict(failing_input=None, note='no-failing-input-found')


def replay(pid, rec):
    """True if the recorded input passes now"""
    fi = rec.get('failing_input')
    if not fi or not build():
        return True
    pr = subprocess.run([BIN, 'replay', fi['family'], fi['needle'] or '', fi['haystack'] or '', str(fi['align']), str(fi['variant'])],
                        capture_output=True, text=True)
    print(pr.stdout.strip())
    return pr.returncode == 0
