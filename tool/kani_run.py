"""Run Kani harnesses (kani/*.rs injected into a scratch copy of the working tree) and report per harness."""
import json
import os
import re
import shutil
import subprocess
import sys
import tempfile
import time
from concurrent.futures import ThreadPoolExecutor

import units

HARNESS_FILES = ['leaf.rs', 'bounded.rs']


def prepare_scratch():
    tmp = tempfile.mkdtemp(prefix='verif_kani_')
    dst = os.path.join(tmp, 'repo')
    subprocess.run(['rsync', '-a', '--exclude', 'target', '--exclude', '.git', '--exclude', 'fuzz', '--exclude', 'benchmarks',
                    units.REPO + '/', dst + '/'], check=True)
    # each harness file names the source file it is appended to (as a nested #[cfg(kani)] module, so that it can see
    # private items of that module) in its first line: `// inject: src/vector.rs`
    for f in sorted(os.listdir(os.path.join(units.VERIF, 'kani'))):
        if not f.endswith('.rs'):
            continue
        text = open(os.path.join(units.VERIF, 'kani', f)).read()
        m = re.match(r'// inject: (\S+)', text)
        target = os.path.join(dst, m.group(1) if m else 'src/lib.rs')
        name = 'verif_kani_' + f[:-3]
        with open(target, 'a') as fh:
            fh.write('\n#[cfg(kani)]\nmod %s {\n%s\n}\n' % (name, text))
    os.makedirs(os.path.join(dst, '.cargo'), exist_ok=True)
    open(os.path.join(dst, '.cargo', 'config.toml'), 'w').write('[net]\noffline = true\n')
    return tmp, dst


def run_harness(dst, h, timeout):
    name = h['name']
    cmd = ['cargo', 'kani', '-Z', 'function-contracts', '-Z', 'stubbing', '--harness', name,
           '--target-dir', os.path.join(dst, 'target_' + name)]
    if h.get('unwind'):
        cmd += ['--default-unwind', str(h['unwind'])]
    cmd += h.get('extra', [])
    t0 = time.time()
    env = dict(os.environ, CARGO_NET_OFFLINE='true')
    import signal
    pr = subprocess.Popen(cmd, cwd=dst, stdout=subprocess.PIPE, stderr=subprocess.STDOUT, text=True, env=env, start_new_session=True)
    try:
        out, _ = pr.communicate(timeout=timeout)
        to = False
    except subprocess.TimeoutExpired:
        try:
            os.killpg(pr.pid, signal.SIGKILL)
        except OSError:
            pass
        try:
            out, _ = pr.communicate(timeout=10)
        except Exception:
            out = ''
        to = True
    wall = time.time() - t0
    ok = 'VERIFICATION:- SUCCESSFUL' in out
    failed = 'VERIFICATION:- FAILED' in out
    m = re.search(r'\*\* (\d+) of (\d+) failed', out)
    checks = int(m.group(2)) if m else 0
    nfail = int(m.group(1)) if m else 0
    fails = re.findall(r'Failed Checks: ([^\n]*)', out)
    # a reached construct Kani cannot model shows up as a FAILED check whose description says so; only when every failed
    # check is of that kind is the harness "unsupported" (inconclusive) rather than failed.  (Passing checks of the
    # category `unsupported_construct` are listed in every output and mean nothing.)
    unsup = [f for f in fails if re.search(r'not currently supported by Kani|is not supported|unsupported', f)]
    real = [f for f in fails if f not in unsup]
    unsupported = failed and not real and bool(unsup)
    if failed and not fails and nfail == 0:
        unsupported = False
    failed = failed and (bool(real) or (not unsup))
    fails = real or fails
    return dict(harness=name, bounded=h.get('bounded', False), bound=h.get('bound', ''), ok=ok, failed=failed, timeout=to,
                checks=checks, failed_checks=nfail, failures=fails[:5], wall_s=round(wall, 1), unsupported=unsupported,
                tail=out[-600:] if not ok else '')


def run_for(pid, spec, tier, oc):
    hs = [h for h in spec.get('kani', []) if tier == 'thorough' or h.get('tier', 'quick') == 'quick']
    if not hs or os.environ.get('VERIF_NO_KANI'):
        return []
    tmp, dst = prepare_scratch()
    try:
        results = []
        par = int(os.environ.get('VERIF_KANI_JOBS', '4'))
        with ThreadPoolExecutor(max_workers=par) as ex:
            futs = [ex.submit(run_harness, dst, h, h.get('timeout', 1500)) for h in hs]
            for f in futs:
                results.append(f.result())
    finally:
        shutil.rmtree(tmp, ignore_errors=True)
    for r in results:
        if r['failed']:
            oc.violations.append(dict(build='kani', key='kani-' + r['harness'], kind='kani-check', module='kani', function=r['harness'],
                                      message='Kani reported failed checks', site='; '.join(r['failures'])[:200], site_tags=['code'],
                                      clause=r['bound'], clause_tags=[], tree_changed=None))
        elif not r['ok']:
            why = 'timeout' if r['timeout'] else ('unsupported construct' if r['unsupported'] else 'no verdict: ' + r['tail'][-200:])
            if r['bounded']:
                # a bounded harness is a labelled cross-check next to the Verus proof, never the deciding step: when it is
                # inconclusive the evidence says so, the verdict is unaffected
                oc.notes.append('bounded Kani cross-check %s inconclusive (%s) after %.0f s' % (r['harness'], why, r['wall_s']))
            else:
                oc.undecided.append('kani harness %s: %s' % (r['harness'], why))
        elif not r['bounded']:
            oc.obligations += r['checks']
            oc.discharged += r['checks']
    return results


if __name__ == '__main__':
    class O:
        violations = []
        undecided = []
        obligations = 0
        discharged = 0
    hs = [dict(name=n) for n in sys.argv[1:]]
    print(json.dumps(run_for('X', dict(kani=hs), 'thorough', O), indent=1))
