#!/usr/bin/env python3
"""Development-time audit: value-returning exec functions of the templates in use that carry NO postcondition
(ingested and checked for panics/memory, but a change of their result is invisible to modular verification).
Heuristic text scan; trait-impl methods inherit the contract of the trait declaration and show up here too."""
import re,sys,os,glob
sys.path.insert(0,'/verif/tool')
import units
used=set()
for b in ('main','aarch64','wasm32','other','other32','safe'):
    used|=set(units.BUILDS[b]['parts'])
res={}
for pn in sorted(used):
    p=units.PARTS[pn]
    tp='/verif/tmpl/%s.vrs'%p.get('tmpl',pn)
    if not os.path.exists(tp): continue
    s=open(tp).read()
    # strip comments (keep /*<*/ markers harmlessly)
    s=re.sub(r'//[^\n]*','',s)
    for m in re.finditer(r'(?m)^[ \t]*((?:pub(?:\([a-z]+\))?\s+)?(?:const\s+)?(?:unsafe\s+)?)fn\s+(\w+)',s):
        pre=s[max(0,m.start()-200):m.start()]
        line_start=s.rfind('\n',0,m.start())+1
        head=s[line_start:m.end()]
        if re.search(r'\b(spec|proof)\b',head) or re.search(r'(spec|proof|broadcast|axiom)\s*$',pre.strip()[-12:]): continue
        # find body open: first '{' at paren depth 0 after signature... approximate: scan
        i=m.end(); depth=0; sig=''
        while i<len(s):
            c=s[i]
            if c in '([': depth+=1
            elif c in ')]': depth-=1
            elif c=='{' and depth==0:
                # could be '{' inside ensures match { } — approximate by requiring previous non-space token not 'match r' ...
                break
            elif c==';' and depth==0: break
            i+=1
        # take a wider window: up to 3000 chars or next "\n    fn "/"\nfn"
        nxt=re.search(r'\n[ \t]*(?:pub\s+)?(?:unsafe\s+)?fn\s',s[m.end():])
        win=s[m.end(): m.end()+(nxt.start() if nxt else 3000)]
        has_ens=bool(re.search(r'\bensures\b',win.split('{')[0]+ (win if 'ensures' in win[:win.find('{')+1] else '')))
        has_ens=bool(re.search(r'\bensures\b', win[:max(win.find('\n    {'),win.find('\n{'),win.find('{'))+1])) or bool(re.search(r'^[^{]*\bensures\b',win))
        rett=re.search(r'->',win[:win.find('{')] if '{' in win else win)
        if not has_ens and rett:
            res.setdefault(pn,[]).append(m.group(2))
for k,v in res.items(): print(k,len(v),' '.join(v))
