// inject: src/lib.rs
// Bounded stand-ins (DESIGN 2.4 role 2).  Every harness here is LABELLED BOUNDED in the evidence and never counted as
// proved: plain #[kani::proof] over kani::any() inputs with explicit length bounds and unwinding assertions on.
// They cover what Verus cannot ingest (iterator-adapter constructors, union + fn-pointer glue) or what the contracts
// do not decide (Two-Way completeness).

fn naive_find(h: &[u8], n: &[u8]) -> Option<usize> {
    if n.len() > h.len() {
        return None;
    }
    let mut i = 0;
    while i + n.len() <= h.len() {
        let mut k = 0;
        let mut ok = true;
        while k < n.len() {
            if h[i + k] != n[k] {
                ok = false;
            }
            k += 1;
        }
        if ok {
            return Some(i);
        }
        i += 1;
    }
    None
}
fn naive_rfind(h: &[u8], n: &[u8]) -> Option<usize> {
    if n.len() > h.len() {
        return None;
    }
    let mut i = h.len() - n.len() + 1;
    while i > 0 {
        i -= 1;
        let mut k = 0;
        let mut ok = true;
        while k < n.len() {
            if h[i + k] != n[k] {
                ok = false;
            }
            k += 1;
        }
        if ok {
            return Some(i);
        }
    }
    None
}

macro_rules! sym_slices {
    ($hb:ident, $h:ident, $hmax:expr, $nb:ident, $n:ident, $nmax:expr) => {
        let $hb: [u8; $hmax] = kani::any();
        let hl: usize = kani::any();
        kani::assume(hl <= $hmax);
        let $h = &$hb[..hl];
        let $nb: [u8; $nmax] = kani::any();
        let nl: usize = kani::any();
        kani::assume(nl <= $nmax);
        let $n = &$nb[..nl];
    };
}

// ---- Two-Way: completeness + soundness against naive search (C03/C04/C12 bounded part)
#[kani::proof]
#[kani::unwind(9)]
fn bounded_twoway_fwd_n4_h7() {
    sym_slices!(hb, h, 7, nb, n, 4);
    let f = crate::arch::all::twoway::Finder::new(n);
    assert!(f.find(h, n) == naive_find(h, n));
}
#[kani::proof]
#[kani::unwind(9)]
fn bounded_twoway_rev_n4_h7() {
    sym_slices!(hb, h, 7, nb, n, 4);
    let f = crate::arch::all::twoway::FinderRev::new(n);
    assert!(f.rfind(h, n) == naive_rfind(h, n));
}
#[kani::proof]
#[kani::unwind(11)]
fn bounded_twoway_fwd_n5_h9() {
    sym_slices!(hb, h, 9, nb, n, 5);
    let f = crate::arch::all::twoway::Finder::new(n);
    assert!(f.find(h, n) == naive_find(h, n));
}
#[kani::proof]
#[kani::unwind(11)]
fn bounded_twoway_rev_n5_h9() {
    sym_slices!(hb, h, 9, nb, n, 5);
    let f = crate::arch::all::twoway::FinderRev::new(n);
    assert!(f.rfind(h, n) == naive_rfind(h, n));
}

// ---- Rabin-Karp: constructors (iterator adapters, not ingestible by Verus) establish the hash invariant: checked
// end to end against naive search
#[kani::proof]
#[kani::unwind(10)]
fn bounded_rabinkarp_fwd_n4_h8() {
    sym_slices!(hb, h, 8, nb, n, 4);
    let f = crate::arch::all::rabinkarp::Finder::new(n);
    assert!(f.find(h, n) == naive_find(h, n));
}
#[kani::proof]
#[kani::unwind(10)]
fn bounded_rabinkarp_rev_n4_h8() {
    sym_slices!(hb, h, 8, nb, n, 4);
    let f = crate::arch::all::rabinkarp::FinderRev::new(n);
    assert!(f.rfind(h, n) == naive_rfind(h, n));
}

// ---- Shift-Or
#[cfg(feature = "alloc")]
#[kani::proof]
#[kani::unwind(10)]
fn bounded_shiftor_n4_h8() {
    sym_slices!(hb, h, 8, nb, n, 4);
    match crate::arch::all::shiftor::Finder::new(n) {
        None => assert!(false), // needles up to 15 bytes are supported
        Some(f) => assert!(f.find(h) == naive_find(h, n)),
    }
}
#[cfg(feature = "alloc")]
#[kani::proof]
#[kani::unwind(18)]
fn bounded_shiftor_unsupported_len() {
    let nb: [u8; 17] = kani::any();
    let nl: usize = kani::any();
    kani::assume(nl <= 17);
    let r = crate::arch::all::shiftor::Finder::new(&nb[..nl]);
    assert!(r.is_some() == (nl <= 15));
}

// ---- Pair selection with a fully symbolic ranker (all 256^256 rankers at once) (C19)
struct SymRanker([u8; 256]);
impl crate::arch::all::packedpair::HeuristicFrequencyRank for SymRanker {
    fn rank(&self, byte: u8) -> u8 {
        self.0[byte as usize]
    }
}
#[kani::proof]
#[kani::unwind(26)]
fn bounded_pair_with_ranker_n24() {
    let nb: [u8; 24] = kani::any();
    let nl: usize = kani::any();
    kani::assume(nl <= 24);
    let n = &nb[..nl];
    let ranker = SymRanker(kani::any());
    match crate::arch::all::packedpair::Pair::with_ranker(n, ranker) {
        None => assert!(nl < 2),
        Some(p) => {
            assert!(nl >= 2);
            assert!(p.index1() != p.index2());
            assert!((p.index1() as usize) < nl && (p.index2() as usize) < nl);
            assert!(p.index1() <= 254 && p.index2() <= 254);
        }
    }
}

// ---- the union + fn-pointer glue of the meta searcher, with the CPU detection outcome stubbed (cpuid is inline asm)
fn avail_false() -> bool {
    false
}
fn avail_true() -> bool {
    true
}
fn glue_body() {
    sym_slices!(hb, h, 19, nb, n, 2);
    let ranker = SymRanker(kani::any());
    let cfg = if kani::any() { crate::memmem::Prefilter::None } else { crate::memmem::Prefilter::Auto };
    let f = crate::memmem::FinderBuilder::new().prefilter(cfg).build_forward_with_ranker(ranker, n);
    assert!(f.find(h) == naive_find(h, n));
}
#[kani::proof]
#[kani::unwind(21)]
#[kani::stub(crate::arch::x86_64::avx2::packedpair::Finder::is_available, avail_false)]
#[kani::stub(crate::arch::x86_64::avx2::memchr::One::is_available, avail_false)]
fn bounded_glue_sse2_n2_h19() {
    glue_body();
}
#[kani::proof]
#[kani::unwind(21)]
#[kani::stub(crate::arch::x86_64::avx2::packedpair::Finder::is_available, avail_false)]
#[kani::stub(crate::arch::x86_64::sse2::packedpair::Finder::is_available, avail_false)]
#[kani::stub(crate::arch::x86_64::avx2::memchr::One::is_available, avail_false)]
fn bounded_glue_fallback_n2_h19() {
    glue_body();
}
#[kani::proof]
#[kani::unwind(8)]
#[kani::stub(crate::arch::x86_64::avx2::memchr::One::is_available, avail_false)]
fn bounded_glue_rev_n3_h6() {
    sym_slices!(hb, h, 6, nb, n, 3);
    let f = crate::memmem::FinderRev::new(n);
    assert!(f.rfind(h) == naive_rfind(h, n));
}

#[kani::proof]
#[kani::unwind(7)]
#[kani::stub(crate::arch::x86_64::avx2::packedpair::Finder::is_available, avail_false)]
#[kani::stub(crate::arch::x86_64::sse2::packedpair::Finder::is_available, avail_false)]
#[kani::stub(crate::arch::x86_64::avx2::memchr::One::is_available, avail_false)]
fn bounded_glue_small_n2_h5() {
    sym_slices!(hb, h, 5, nb, n, 2);
    let cfg = if kani::any() { crate::memmem::Prefilter::None } else { crate::memmem::Prefilter::Auto };
    let f = crate::memmem::FinderBuilder::new().prefilter(cfg).build_forward(n);
    assert!(f.find(h) == naive_find(h, n));
}
#[kani::proof]
#[kani::unwind(8)]
fn bounded_twoway_fwd_n3_h6() {
    sym_slices!(hb, h, 6, nb, n, 3);
    let f = crate::arch::all::twoway::Finder::new(n);
    assert!(f.find(h, n) == naive_find(h, n));
}
#[kani::proof]
#[kani::unwind(8)]
fn bounded_twoway_rev_n3_h6() {
    sym_slices!(hb, h, 6, nb, n, 3);
    let f = crate::arch::all::twoway::FinderRev::new(n);
    assert!(f.rfind(h, n) == naive_rfind(h, n));
}

// long needles: the scan must stop at offset 254 (pair offsets are u8); needle = 252 fixed bytes + 8 symbolic ones,
// symbolic length 250..=260, fully symbolic ranker
#[kani::proof]
#[kani::unwind(262)]
fn bounded_pair_with_ranker_long_tail() {
    let mut nb = [b'a'; 260];
    let t: [u8; 8] = kani::any();
    let mut j = 0;
    while j < 8 {
        nb[252 + j] = t[j];
        j += 1;
    }
    let nl: usize = kani::any();
    kani::assume(250 <= nl && nl <= 260);
    let ranker = SymRanker(kani::any());
    match crate::arch::all::packedpair::Pair::with_ranker(&nb[..nl], ranker) {
        None => assert!(false),
        Some(p) => {
            assert!(p.index1() != p.index2());
            assert!((p.index1() as usize) < nl && (p.index2() as usize) < nl);
            assert!(p.index1() <= 254 && p.index2() <= 254);
        }
    }
}

// quick-tier variant of the long-needle check: concrete default ranker, symbolic tail bytes and length
#[kani::proof]
#[kani::unwind(262)]
fn bounded_pair_default_ranker_long_tail() {
    let mut nb = [b'a'; 260];
    let t: [u8; 6] = kani::any();
    let mut j = 0;
    while j < 6 {
        nb[253 + j] = t[j];
        j += 1;
    }
    let nl: usize = kani::any();
    kani::assume(254 <= nl && nl <= 260);
    match crate::arch::all::packedpair::Pair::new(&nb[..nl]) {
        None => assert!(false),
        Some(p) => {
            assert!(p.index1() != p.index2());
            assert!((p.index1() as usize) < nl && (p.index2() as usize) < nl);
            assert!(p.index1() <= 254 && p.index2() <= 254);
        }
    }
}
#[kani::proof]
#[kani::unwind(6)]
#[kani::stub(crate::arch::x86_64::avx2::packedpair::Finder::is_available, avail_false)]
#[kani::stub(crate::arch::x86_64::sse2::packedpair::Finder::is_available, avail_false)]
fn bounded_glue_fwd_n2_h4() {
    let hb: [u8; 4] = kani::any();
    let hl: usize = kani::any();
    kani::assume(hl <= 4);
    let h = &hb[..hl];
    let n: [u8; 2] = kani::any();
    let f = crate::memmem::Finder::new(&n);
    assert!(f.find(h) == naive_find(h, &n));
}

// the fn-pointer pairing of Searcher::new / Searcher::find on the SSE2 strategy (AVX2 stubbed unavailable): haystacks
// below the vector minimum go through searcher_kind_sse2's Rabin-Karp fallback
#[kani::proof]
#[kani::unwind(6)]
#[kani::stub(crate::arch::x86_64::avx2::packedpair::Finder::is_available, avail_false)]
fn bounded_glue_fwd_sse2_n2_h4() {
    let hb: [u8; 4] = kani::any();
    let hl: usize = kani::any();
    kani::assume(hl <= 4);
    let h = &hb[..hl];
    let n: [u8; 2] = kani::any();
    let f = crate::memmem::Finder::new(&n);
    assert!(f.find(h) == naive_find(h, &n));
}
