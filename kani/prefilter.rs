// inject: src/memmem/searcher.rs
// Bounded stand-in: Two-Way WITH a prefilter (the branch `pos += pre.find(..)?` and its bounds re-check) against naive
// search; the portable fallback prefilter is used so that no SIMD dispatch is involved.
use super::*;

fn naive_find(h: &[u8], n: &[u8]) -> Option<usize> {
    if n.len() > h.len() {
        return None;
    }
    let mut i = 0;
    while i + n.len() <= h.len() {
        let mut k = 0;
        let mut ok = true;
        while k < n.len() {
            if h[i + k] != n[k] {
                ok = false;
            }
            k += 1;
        }
        if ok {
            return Some(i);
        }
        i += 1;
    }
    None
}
fn avail_false() -> bool {
    false
}
struct ZeroRank;
impl HeuristicFrequencyRank for ZeroRank {
    fn rank(&self, _b: u8) -> u8 {
        0
    }
}

#[kani::proof]
#[kani::unwind(9)]
#[kani::stub(crate::arch::x86_64::avx2::memchr::One::is_available, avail_false)]
fn bounded_twoway_prefilter_fwd_n3_h7() {
    let hb: [u8; 7] = kani::any();
    let hl: usize = kani::any();
    kani::assume(hl <= 7);
    let h = &hb[..hl];
    let nb: [u8; 3] = kani::any();
    let nl: usize = kani::any();
    kani::assume(2 <= nl && nl <= 3);
    let n = &nb[..nl];
    let i1: u8 = kani::any();
    let i2: u8 = kani::any();
    let pair = match Pair::with_indices(n, i1, i2) {
        Some(p) => p,
        None => return,
    };
    let prestrat = match Prefilter::fallback(ZeroRank, pair, n) {
        Some(p) => p,
        None => return,
    };
    let mut prestate = PrefilterState::new();
    let pre = Pre { prestate: &mut prestate, prestrat: &prestrat };
    let f = twoway::Finder::new(n);
    assert!(f.find_with_prefilter(Some(pre), h, n) == naive_find(h, n));
}
