// inject: src/vector.rs
// K-leaf: loop-free, full-domain Kani harnesses that close the `Vector` leaf contract (assumption A3) for the real
// `impl Vector for __m128i / __m256i` composed with `SensibleMoveMask`.  A loop-free harness over fully symbolic
// inputs is a complete proof (modulo Kani's intrinsic models, A3').
use super::{MoveMask, Vector};
use core::arch::x86_64::{__m128i, __m256i};

fn lanes128(v: __m128i) -> [u8; 16] {
    unsafe { core::mem::transmute(v) }
}
fn lanes256(v: __m256i) -> [u8; 32] {
    unsafe { core::mem::transmute(v) }
}

macro_rules! leaf {
    ($name:ident, $ty:ty, $n:expr, $lanes:ident) => {
        #[kani::proof]
        fn $name() {
            let a: [u8; $n] = kani::any();
            let b: u8 = kani::any();
            let i: usize = kani::any();
            kani::assume(i < $n);
            unsafe {
                // load_unaligned / load_aligned: lanes are the bytes in memory order
                let va = <$ty as Vector>::load_unaligned(a.as_ptr());
                assert!($lanes(va)[i] == a[i]);
                // splat: every lane is the byte
                let vb = <$ty as Vector>::splat(b);
                assert!($lanes(vb)[i] == b);
                // cmpeq: 0xFF where equal, 0x00 elsewhere
                let eq = va.cmpeq(vb);
                assert!($lanes(eq)[i] == if a[i] == b { 0xFF } else { 0x00 });
                // and / or: lane-wise
                let c: [u8; $n] = kani::any();
                let vc = <$ty as Vector>::load_unaligned(c.as_ptr());
                assert!($lanes(va.and(vc))[i] == (a[i] & c[i]));
                assert!($lanes(va.or(vc))[i] == (a[i] | c[i]));
                // movemask on a boolean vector: bit i <=> lane i is 0xFF ; no bit >= BYTES
                let m = eq.movemask();
                assert!(((m.0 >> i) & 1 == 1) == (a[i] == b));
                if $n < 32 {
                    assert!(m.0 >> ($n % 32) == 0 || $n == 32);
                }
                // default method agrees with "some lane is 0xFF"
                let nz = eq.movemask_will_have_non_zero();
                if a[i] == b {
                    assert!(nz);
                }
                if nz {
                    assert!(m.0 != 0);
                }
                assert!(<$ty as Vector>::BYTES == $n && <$ty as Vector>::ALIGN == $n - 1);
            }
        }
    };
}
leaf!(leaf_sse2, __m128i, 16, lanes128);
leaf!(leaf_avx2, __m256i, 32, lanes256);

#[kani::proof]
fn leaf_sse2_aligned_load() {
    #[repr(align(16))]
    struct A([u8; 16]);
    let a = A(kani::any());
    let i: usize = kani::any();
    kani::assume(i < 16);
    unsafe {
        let v = <__m128i as Vector>::load_aligned(a.0.as_ptr());
        assert!(lanes128(v)[i] == a.0[i]);
    }
}
#[kani::proof]
fn leaf_avx2_aligned_load() {
    #[repr(align(32))]
    struct A([u8; 32]);
    let a = A(kani::any());
    let i: usize = kani::any();
    kani::assume(i < 32);
    unsafe {
        let v = <__m256i as Vector>::load_aligned(a.0.as_ptr());
        assert!(lanes256(v)[i] == a.0[i]);
    }
}

// the assumed spec of u32::count_ones used by the Verus prelude (popcount32)
#[kani::proof]
fn leaf_count_ones_spec() {
    let x: u32 = kani::any();
    let mut n = 0u32;
    let mut k = 0;
    while k < 32 {
        if (x >> k) & 1 == 1 {
            n += 1;
        }
        k += 1;
    }
    assert!(x.count_ones() == n);
}
