//! Concrete replayer: searches short inputs for one that makes the REAL crate (built from /repo's working tree)
//! disagree with the executable mirror of a property's contract, and re-executes recorded inputs.
//! It never decides a property on its own: it attaches counterexamples to failed obligations (DESIGN 2.4 role 3).
//!
//!   replayer search <family> <seed> <budget_ms> [casefile]   -> prints one JSON line
//!   replayer replay <family> <hex-needle> <hex-haystack> <align> <variant>
use std::panic::{catch_unwind, AssertUnwindSafe};

struct Rng(u64);
impl Rng {
    fn next(&mut self) -> u64 {
        self.0 ^= self.0 << 13;
        self.0 ^= self.0 >> 7;
        self.0 ^= self.0 << 17;
        self.0
    }
    fn below(&mut self, n: usize) -> usize {
        (self.next() % (n as u64)) as usize
    }
}

fn hex(b: &[u8]) -> String {
    b.iter().map(|x| format!("{:02x}", x)).collect()
}
fn unhex(s: &str) -> Vec<u8> {
    (0..s.len() / 2).map(|i| u8::from_str_radix(&s[2 * i..2 * i + 2], 16).unwrap()).collect()
}

// ---------------------------------------------------------------- guard-page memory (C05)
extern "C" {
    fn mmap(addr: *mut u8, len: usize, prot: i32, flags: i32, fd: i32, off: i64) -> *mut u8;
    fn mprotect(addr: *mut u8, len: usize, prot: i32) -> i32;
}
const PAGE: usize = 4096;
/// region of `pages` RW pages with a PROT_NONE page before and after
struct Guarded {
    base: *mut u8,
    len: usize,
}
impl Guarded {
    fn new(pages: usize) -> Guarded {
        unsafe {
            let total = (pages + 2) * PAGE;
            let p = mmap(std::ptr::null_mut(), total, 3, 0x2 | 0x20, -1, 0);
            assert!(!p.is_null() && p as isize != -1);
            mprotect(p, PAGE, 0);
            mprotect(p.add((pages + 1) * PAGE), PAGE, 0);
            Guarded { base: p.add(PAGE), len: pages * PAGE }
        }
    }
    /// copy `data` so that it ENDS exactly at the trailing guard page
    fn at_end(&self, data: &[u8]) -> &[u8] {
        unsafe {
            let p = self.base.add(self.len - data.len());
            std::ptr::copy_nonoverlapping(data.as_ptr(), p, data.len());
            std::slice::from_raw_parts(p, data.len())
        }
    }
    /// copy `data` so that it STARTS exactly after the leading guard page
    fn at_start(&self, data: &[u8]) -> &[u8] {
        unsafe {
            std::ptr::copy_nonoverlapping(data.as_ptr(), self.base, data.len());
            std::slice::from_raw_parts(self.base, data.len())
        }
    }
}

// ---------------------------------------------------------------- oracles
fn naive_find(h: &[u8], n: &[u8]) -> Option<usize> {
    if n.len() > h.len() {
        return None;
    }
    (0..=h.len() - n.len()).find(|&i| &h[i..i + n.len()] == n)
}
fn naive_rfind(h: &[u8], n: &[u8]) -> Option<usize> {
    if n.len() > h.len() {
        return None;
    }
    (0..=h.len() - n.len()).rev().find(|&i| &h[i..i + n.len()] == n)
}
fn greedy_fwd(h: &[u8], n: &[u8]) -> Vec<usize> {
    let mut out = vec![];
    let mut pos = 0;
    while pos <= h.len() {
        match naive_find(&h[pos..], n) {
            None => break,
            Some(i) => {
                out.push(pos + i);
                pos = pos + i + n.len().max(1);
            }
        }
    }
    out
}
fn greedy_rev(h: &[u8], n: &[u8]) -> Vec<usize> {
    let mut out = vec![];
    let mut end = Some(h.len());
    while let Some(e) = end {
        match naive_rfind(&h[..e], n) {
            None => break,
            Some(i) => {
                out.push(i);
                if n.is_empty() {
                    end = i.checked_sub(1);
                } else {
                    end = Some(i);
                }
            }
        }
    }
    out
}

/// one concrete case: needle bytes (1..3 for the byte family), haystack, alignment offset, variant selector
#[derive(Clone)]
struct Case {
    n: Vec<u8>,
    h: Vec<u8>,
    align: usize,
    variant: usize,
}

fn place<'a>(buf: &'a mut Vec<u8>, h: &[u8], align: usize) -> &'a [u8] {
    // 64-byte aligned backing store, haystack at offset `align`
    buf.clear();
    buf.resize(h.len() + 192, 0xA5);
    let base = buf.as_ptr() as usize;
    let off = (64 - base % 64) % 64 + align % 64;
    buf[off..off + h.len()].copy_from_slice(h);
    &buf[off..off + h.len()]
}

fn check_byte(c: &Case, mem: Option<&Guarded>) -> Result<(), String> {
    use memchr::arch::all::memchr as swar;
    use memchr::arch::x86_64::{avx2::memchr as avx2, sse2::memchr as sse2};
    let mut buf = Vec::new();
    let h: &[u8] = match mem {
        Some(g) if c.variant % 2 == 0 => g.at_end(&c.h),
        Some(g) => g.at_start(&c.h),
        None => place(&mut buf, &c.h, c.align),
    };
    let n = &c.n;
    let isn = |b: &u8| n.contains(b);
    let first = h.iter().position(isn);
    let last = h.iter().rposition(isn);
    let cnt = h.iter().filter(|b| isn(b)).count();
    let all: Vec<usize> = h.iter().enumerate().filter(|(_, b)| isn(b)).map(|(i, _)| i).collect();
    macro_rules! eq {
        ($what:expr, $got:expr, $want:expr) => {
            let g = $got;
            if g != $want {
                return Err(format!("{}: got {:?}, expected {:?}", $what, g, $want));
            }
        };
    }
    match n.len() {
        1 => {
            let a = n[0];
            eq!("memchr", memchr::memchr(a, h), first);
            eq!("memrchr", memchr::memrchr(a, h), last);
            eq!("memchr_iter.count", memchr::memchr_iter(a, h).count(), cnt);
            eq!("memchr_iter", memchr::memchr_iter(a, h).collect::<Vec<_>>(), all);
            eq!("memrchr_iter", memchr::memrchr_iter(a, h).collect::<Vec<_>>(), all.iter().rev().cloned().collect::<Vec<_>>());
            let s = swar::One::new(a);
            eq!("swar::One::find", s.find(h), first);
            eq!("swar::One::rfind", s.rfind(h), last);
            eq!("swar::One::count", s.count(h), cnt);
            eq!("swar::One::iter", s.iter(h).collect::<Vec<_>>(), all);
            if let Some(s) = sse2::One::new(a) {
                eq!("sse2::One::find", s.find(h), first);
                eq!("sse2::One::rfind", s.rfind(h), last);
                eq!("sse2::One::count", s.count(h), cnt);
                eq!("sse2::One::iter", s.iter(h).collect::<Vec<_>>(), all);
                eq!("sse2::One::iter.rev", s.iter(h).rev().collect::<Vec<_>>(), all.iter().rev().cloned().collect::<Vec<_>>());
            }
            if let Some(s) = avx2::One::new(a) {
                eq!("avx2::One::find", s.find(h), first);
                eq!("avx2::One::rfind", s.rfind(h), last);
                eq!("avx2::One::count", s.count(h), cnt);
                eq!("avx2::One::iter", s.iter(h).collect::<Vec<_>>(), all);
            }
            // C06/C07: interleavings driven by the variant bits
            let mut it = memchr::memchr_iter(a, h);
            let (mut lo, mut hi) = (0usize, all.len());
            let mut bits = c.variant;
            for _ in 0..12 {
                let (_, up) = it.size_hint();
                if up.map_or(false, |u| u < hi - lo) {
                    return Err(format!("size_hint upper {:?} < remaining {}", up, hi - lo));
                }
                if it.clone().count() != hi - lo {
                    return Err(format!("count on partially consumed iterator: got {}, expected {}", it.clone().count(), hi - lo));
                }
                if bits & 1 == 0 {
                    let want = if lo < hi { lo += 1; Some(all[lo - 1]) } else { None };
                    eq!("iter next (interleaved)", it.next(), want);
                } else {
                    let want = if lo < hi { hi -= 1; Some(all[hi]) } else { None };
                    eq!("iter next_back (interleaved)", it.next_back(), want);
                }
                bits >>= 1;
            }
        }
        2 => {
            let (a, b) = (n[0], n[1]);
            eq!("memchr2", memchr::memchr2(a, b, h), first);
            eq!("memrchr2", memchr::memrchr2(a, b, h), last);
            eq!("memchr2_iter", memchr::memchr2_iter(a, b, h).collect::<Vec<_>>(), all);
            eq!("memrchr2_iter", memchr::memrchr2_iter(a, b, h).collect::<Vec<_>>(), all.iter().rev().cloned().collect::<Vec<_>>());
            let s = swar::Two::new(a, b);
            eq!("swar::Two::find", s.find(h), first);
            eq!("swar::Two::rfind", s.rfind(h), last);
            if let Some(s) = sse2::Two::new(a, b) {
                eq!("sse2::Two::find", s.find(h), first);
                eq!("sse2::Two::rfind", s.rfind(h), last);
                eq!("sse2::Two::iter", s.iter(h).collect::<Vec<_>>(), all);
            }
            if let Some(s) = avx2::Two::new(a, b) {
                eq!("avx2::Two::find", s.find(h), first);
                eq!("avx2::Two::rfind", s.rfind(h), last);
            }
        }
        _ => {
            let (a, b, d) = (n[0], n[1], n[2]);
            eq!("memchr3", memchr::memchr3(a, b, d, h), first);
            eq!("memrchr3", memchr::memrchr3(a, b, d, h), last);
            eq!("memchr3_iter", memchr::memchr3_iter(a, b, d, h).collect::<Vec<_>>(), all);
            eq!("memrchr3_iter", memchr::memrchr3_iter(a, b, d, h).collect::<Vec<_>>(), all.iter().rev().cloned().collect::<Vec<_>>());
            let s = swar::Three::new(a, b, d);
            eq!("swar::Three::find", s.find(h), first);
            eq!("swar::Three::rfind", s.rfind(h), last);
            if let Some(s) = sse2::Three::new(a, b, d) {
                eq!("sse2::Three::find", s.find(h), first);
                eq!("sse2::Three::rfind", s.rfind(h), last);
            }
            if let Some(s) = avx2::Three::new(a, b, d) {
                eq!("avx2::Three::find", s.find(h), first);
                eq!("avx2::Three::rfind", s.rfind(h), last);
                eq!("avx2::Three::iter", s.iter(h).collect::<Vec<_>>(), all);
            }
        }
    }
    Ok(())
}

struct ConstRank(u8);
impl memchr::arch::all::packedpair::HeuristicFrequencyRank for ConstRank {
    fn rank(&self, b: u8) -> u8 {
        match self.0 {
            0 => 0,
            1 => 255,
            2 => b,
            3 => 255 - b,
            _ => b.wrapping_mul(self.0).wrapping_add(17),
        }
    }
}

fn check_sub(c: &Case, mem: Option<&Guarded>) -> Result<(), String> {
    use memchr::arch::all::{packedpair as pp, rabinkarp, twoway};
    use memchr::arch::x86_64::{avx2::packedpair as avx2, sse2::packedpair as sse2};
    use memchr::memmem;
    let mut buf = Vec::new();
    let mut nbuf = Vec::new();
    let (h, n): (&[u8], &[u8]) = match mem {
        Some(g) if c.variant % 2 == 0 => (g.at_end(&c.h), place(&mut nbuf, &c.n, 3)),
        Some(g) => (g.at_start(&c.h), place(&mut nbuf, &c.n, 3)),
        None => (place(&mut buf, &c.h, c.align), place(&mut nbuf, &c.n, c.align / 7)),
    };
    let want = naive_find(h, n);
    let rwant = naive_rfind(h, n);
    macro_rules! eq {
        ($what:expr, $got:expr, $want:expr) => {
            let g = $got;
            if g != $want {
                return Err(format!("{}: got {:?}, expected {:?}", $what, g, $want));
            }
        };
    }
    eq!("memmem::find", memmem::find(h, n), want);
    eq!("memmem::rfind", memmem::rfind(h, n), rwant);
    let f = memmem::Finder::new(n);
    eq!("Finder::find", f.find(h), want);
    eq!("Finder::needle", f.needle(), n);
    let fr = memmem::FinderRev::new(n);
    eq!("FinderRev::rfind", fr.rfind(h), rwant);
    // purity (C16): search something else first, then again; owned / as_ref copies
    let other: Vec<u8> = h.iter().rev().cloned().collect();
    let _ = f.find(&other);
    eq!("Finder::find (reused)", f.find(h), want);
    eq!("Finder::as_ref", f.as_ref().find(h), want);
    eq!("Finder::into_owned", f.clone().into_owned().find(h), want);
    eq!("FinderRev::into_owned", fr.clone().into_owned().rfind(h), rwant);
    // heuristics invisible (C10)
    for cfg in [memmem::Prefilter::None, memmem::Prefilter::Auto] {
        let r = ConstRank((c.variant % 7) as u8);
        let fb = memmem::FinderBuilder::new().prefilter(cfg).build_forward_with_ranker(r, n);
        eq!("FinderBuilder (ranker/prefilter)", fb.find(h), want);
    }
    // iterators (C08)
    let gf = greedy_fwd(h, n);
    let it = f.find_iter(h);
    let (lo, hi) = it.size_hint();
    if lo > gf.len() || hi.map_or(false, |x| x < gf.len()) {
        return Err(format!("find_iter size_hint {:?} does not bracket {}", (lo, hi), gf.len()));
    }
    eq!("find_iter", it.take(gf.len() + 3).collect::<Vec<_>>(), gf);
    let mut it2 = f.find_iter(h);
    for _ in 0..gf.len() {
        it2.next();
    }
    eq!("find_iter fused", (it2.next(), it2.next()), (None::<usize>, None::<usize>));
    let gr = greedy_rev(h, n);
    eq!("rfind_iter", fr.rfind_iter(h).take(gr.len() + 3).collect::<Vec<_>>(), gr);
    // clone / into_owned at every point of an iteration, also past exhaustion (C16, C08)
    {
        let mut it = f.find_iter(h);
        for k in 0..gf.len() + 2 {
            let rest: Vec<usize> = gf.iter().skip(k).cloned().collect();
            eq!("find_iter clone mid-iteration", it.clone().take(rest.len() + 2).collect::<Vec<_>>(), rest);
            eq!("find_iter into_owned mid-iteration", it.clone().into_owned().take(rest.len() + 2).collect::<Vec<_>>(), rest);
            it.next();
        }
        let mut rit = fr.rfind_iter(h);
        for k in 0..gr.len() + 2 {
            let rest: Vec<usize> = gr.iter().skip(k).cloned().collect();
            eq!("rfind_iter clone mid-iteration", rit.clone().take(rest.len() + 2).collect::<Vec<_>>(), rest);
            eq!("rfind_iter into_owned mid-iteration", rit.clone().into_owned().take(rest.len() + 2).collect::<Vec<_>>(), rest);
            rit.next();
        }
    }
    // no interference between finders (C16): building one for a similar needle (same length, same tail) first
    if !n.is_empty() {
        let mut n2 = n.to_vec();
        if n.len() > 32 {
            // same length, same last 32 bytes (same Rabin-Karp hash), different structure before them
            for x in n2[..n.len() - 32].iter_mut() {
                *x = if *x == b'a' { b'b' } else { b'a' };
            }
        } else {
            n2[0] ^= 0x20;
        }
        let f2 = memmem::Finder::new(&n2);
        let f3 = memmem::Finder::new(n);
        eq!("Finder::find after building a finder for a similar needle", f3.find(h), want);
        eq!("Finder::find for the similar needle", f2.find(h), naive_find(h, &n2));
        let r2 = memmem::FinderRev::new(&n2);
        let r3 = memmem::FinderRev::new(n);
        eq!("FinderRev::rfind after building a finder for a similar needle", r3.rfind(h), rwant);
        eq!("FinderRev::rfind for the similar needle", r2.rfind(h), naive_rfind(h, &n2));
    }
    // building blocks (C12)
    eq!("rabinkarp::Finder", rabinkarp::Finder::new(n).find(h, n), want);
    eq!("rabinkarp::FinderRev", rabinkarp::FinderRev::new(n).rfind(h, n), rwant);
    eq!("twoway::Finder", twoway::Finder::new(n).find(h, n), want);
    eq!("twoway::FinderRev", twoway::FinderRev::new(n).rfind(h, n), rwant);
    if n.len() <= 15 {
        match memchr::arch::all::shiftor::Finder::new(n) {
            None => return Err("shiftor::Finder::new returned None for a supported needle".to_string()),
            Some(s) => {
                eq!("shiftor::Finder", s.find(h), want);
            }
        }
    }
    // packed pair (C11, C12, C19)
    if n.len() >= 2 {
        let i1 = (c.variant % n.len()) as u8;
        let i2 = ((c.variant / 3 + 1) % n.len()) as u8;
        let pairs = [pp::Pair::new(n), pp::Pair::with_indices(n, i1, i2), pp::Pair::with_ranker(n, ConstRank((c.variant % 5) as u8))];
        for p in pairs.iter().flatten() {
            if p.index1() == p.index2() || p.index1() as usize >= n.len() || p.index2() as usize >= n.len() {
                return Err(format!("invalid pair {:?} for needle of length {}", p, n.len()));
            }
            if let Some(pf) = pp::Finder::with_pair(n, *p) {
                let r = pf.find_prefilter(h);
                if let Some(w) = want {
                    if r.map_or(true, |x| x > w) {
                        return Err(format!("portable find_prefilter {:?} skips the first occurrence {}", r, w));
                    }
                }
            }
            if let Some(sf) = sse2::Finder::with_pair(n, *p) {
                if sf.pair().index1() != p.index1() || sf.pair().index2() != p.index2() {
                    return Err("sse2 finder reports a different pair".to_string());
                }
                if h.len() >= sf.min_haystack_len() {
                    eq!("sse2::packedpair::find", sf.find(h, n), want);
                    let r = sf.find_prefilter(h);
                    if let Some(w) = want {
                        if r.map_or(true, |x| x > w) {
                            return Err(format!("sse2 find_prefilter {:?} skips the first occurrence {}", r, w));
                        }
                    }
                    if let Some(x) = r {
                        if h.get(x + p.index1() as usize) != Some(&n[p.index1() as usize]) || h.get(x + p.index2() as usize) != Some(&n[p.index2() as usize]) {
                            return Err(format!("sse2 find_prefilter candidate {} does not carry the pair", x));
                        }
                    }
                }
            }
            if let Some(af) = avx2::Finder::with_pair(n, *p) {
                if h.len() >= af.min_haystack_len() {
                    eq!("avx2::packedpair::find", af.find(h, n), want);
                    let r = af.find_prefilter(h);
                    if let Some(w) = want {
                        if r.map_or(true, |x| x > w) {
                            return Err(format!("avx2 find_prefilter {:?} skips the first occurrence {}", r, w));
                        }
                    }
                }
            }
        }
        if (i1 != i2) != pp::Pair::with_indices(n, i1, i2).is_some() {
            return Err(format!("Pair::with_indices({},{}) acceptance wrong", i1, i2));
        }
        for (a, b) in [(0u8, 255u8), (255, 1), (254, 255), (255, 255), (200, 254)] {
            let ok = a != b && (a as usize) < n.len() && (b as usize) < n.len();
            if pp::Pair::with_indices(n, a, b).is_some() != ok {
                return Err(format!("Pair::with_indices({},{}) acceptance wrong for needle length {}", a, b, n.len()));
            }
        }
        for p in pairs.iter().flatten().take(1).chain(pairs.iter().flatten().skip(2)) {
            if p.index1() > 254 || p.index2() > 254 {
                return Err(format!("selected pair offset above 254: {:?}", p));
            }
        }
    } else if pp::Pair::new(n).is_some() {
        return Err("Pair::new accepted a needle shorter than 2".to_string());
    }
    // is_equal family (C18)
    use memchr::arch::all::{is_equal, is_prefix, is_suffix};
    if is_prefix(h, n) != h.starts_with(n) || is_suffix(h, n) != h.ends_with(n) || is_equal(h, n) != (h == n) {
        return Err("is_prefix/is_suffix/is_equal disagree with slice comparison".to_string());
    }
    Ok(())
}

// ---------------------------------------------------------------- allocation counter (C17)
struct Counting;
static ALLOCS: std::sync::atomic::AtomicUsize = std::sync::atomic::AtomicUsize::new(0);
unsafe impl std::alloc::GlobalAlloc for Counting {
    unsafe fn alloc(&self, l: std::alloc::Layout) -> *mut u8 {
        ALLOCS.fetch_add(1, std::sync::atomic::Ordering::Relaxed);
        std::alloc::System.alloc(l)
    }
    unsafe fn dealloc(&self, p: *mut u8, l: std::alloc::Layout) {
        std::alloc::System.dealloc(p, l)
    }
    unsafe fn alloc_zeroed(&self, l: std::alloc::Layout) -> *mut u8 {
        ALLOCS.fetch_add(1, std::sync::atomic::Ordering::Relaxed);
        std::alloc::System.alloc_zeroed(l)
    }
    unsafe fn realloc(&self, p: *mut u8, l: std::alloc::Layout, n: usize) -> *mut u8 {
        ALLOCS.fetch_add(1, std::sync::atomic::Ordering::Relaxed);
        std::alloc::System.realloc(p, l, n)
    }
}
#[global_allocator]
static GLOBAL: Counting = Counting;

/// C17: none of the searching API calls may allocate (the replayer is single-threaded, so the counter is exact)
fn check_alloc(c: &Case) -> Result<(), String> {
    use memchr::{arch, memmem};
    let mut buf = Vec::new();
    let h = place(&mut buf, &c.h, c.align);
    let n = &c.n[..];
    let (n1, n2, n3) = (*n.get(0).unwrap_or(&b'a'), *n.get(1).unwrap_or(&b'b'), *n.get(2).unwrap_or(&b'c'));
    let mut acc = 0usize; // keeps the calls alive
    let mut what = "";
    let mut bad = 0usize; // allocations inside the measured steps (allocations between steps, e.g. into_owned, do not count)
    macro_rules! step {
        ($name:expr, $e:expr) => {{
            let a0 = ALLOCS.load(std::sync::atomic::Ordering::Relaxed);
            let r = $e;
            let a1 = ALLOCS.load(std::sync::atomic::Ordering::Relaxed);
            if a1 != a0 {
                bad += a1 - a0;
                if what.is_empty() {
                    what = $name;
                }
            }
            r
        }};
    }
    acc += step!("memchr", memchr::memchr(n1, h)).unwrap_or(0);
    acc += step!("memchr2", memchr::memchr2(n1, n2, h)).unwrap_or(0);
    acc += step!("memchr3", memchr::memchr3(n1, n2, n3, h)).unwrap_or(0);
    acc += step!("memrchr", memchr::memrchr(n1, h)).unwrap_or(0);
    acc += step!("memrchr2", memchr::memrchr2(n1, n2, h)).unwrap_or(0);
    acc += step!("memrchr3", memchr::memrchr3(n1, n2, n3, h)).unwrap_or(0);
    acc += step!("memchr_iter", { let mut k = 0; for p in memchr::memchr_iter(n1, h) { k += p } k });
    acc += step!("memchr2_iter", { let mut k = 0; for p in memchr::memchr2_iter(n1, n2, h).rev() { k += p } k });
    acc += step!("memchr3_iter", { let mut k = 0; for p in memchr::memchr3_iter(n1, n2, n3, h) { k += p } k });
    acc += step!("memchr_iter.count", memchr::memchr_iter(n1, h).count());
    acc += step!("memrchr_iter", { let mut k = 0; for p in memchr::memrchr_iter(n1, h) { k += p } k });
    acc += step!("arch::all::memchr::One", { let f = arch::all::memchr::One::new(n1); f.find(h).unwrap_or(0) + f.rfind(h).unwrap_or(0) + f.count(h) + f.iter(h).count() });
    acc += step!("arch::all::memchr::Two", { let f = arch::all::memchr::Two::new(n1, n2); f.find(h).unwrap_or(0) + f.rfind(h).unwrap_or(0) + f.iter(h).count() });
    acc += step!("arch::all::memchr::Three", { let f = arch::all::memchr::Three::new(n1, n2, n3); f.find(h).unwrap_or(0) + f.rfind(h).unwrap_or(0) + f.iter(h).count() });
    #[cfg(target_arch = "x86_64")]
    {
        use memchr::arch::x86_64::{avx2, sse2};
        acc += step!("sse2::memchr::One", sse2::memchr::One::new(n1).map(|f| f.find(h).unwrap_or(0) + f.rfind(h).unwrap_or(0) + f.count(h)).unwrap_or(0));
        acc += step!("avx2::memchr::One", avx2::memchr::One::new(n1).map(|f| f.find(h).unwrap_or(0) + f.rfind(h).unwrap_or(0) + f.count(h)).unwrap_or(0));
        acc += step!("sse2::memchr::Three", sse2::memchr::Three::new(n1, n2, n3).map(|f| f.find(h).unwrap_or(0) + f.rfind(h).unwrap_or(0)).unwrap_or(0));
        acc += step!("avx2::memchr::Two", avx2::memchr::Two::new(n1, n2).map(|f| f.find(h).unwrap_or(0) + f.rfind(h).unwrap_or(0)).unwrap_or(0));
        acc += step!("sse2::packedpair::Finder", sse2::packedpair::Finder::new(n).map(|f| {
            if h.len() >= f.min_haystack_len() { f.find(h, n).unwrap_or(0) + f.find_prefilter(h).unwrap_or(0) } else { 0 }
        }).unwrap_or(0));
        acc += step!("avx2::packedpair::Finder", avx2::packedpair::Finder::new(n).map(|f| {
            if h.len() >= f.min_haystack_len() { f.find(h, n).unwrap_or(0) + f.find_prefilter(h).unwrap_or(0) } else { 0 }
        }).unwrap_or(0));
    }
    acc += step!("memmem::find", memmem::find(h, n)).unwrap_or(0);
    acc += step!("memmem::rfind", memmem::rfind(h, n)).unwrap_or(0);
    acc += step!("memmem::find_iter", { let mut k = 0; for p in memmem::find_iter(h, n) { k += p } k });
    acc += step!("memmem::rfind_iter", { let mut k = 0; for p in memmem::rfind_iter(h, n) { k += p } k });
    acc += step!("memmem::Finder::new + find + find_iter", {
        let f = memmem::Finder::new(n);
        let g = f.as_ref();
        let mut k = f.find(h).unwrap_or(0) + g.find(h).unwrap_or(0) + f.needle().len();
        for p in f.find_iter(h) { k += p }
        k
    });
    acc += step!("memmem::FinderRev::new + rfind + rfind_iter", {
        let f = memmem::FinderRev::new(n);
        let g = f.as_ref();
        let mut k = f.rfind(h).unwrap_or(0) + g.rfind(h).unwrap_or(0) + f.needle().len();
        for p in f.rfind_iter(h) { k += p }
        k
    });
    // owned finders: building them may allocate (into_owned is the permitted allocator), USING them must not
    let owned_f = memmem::Finder::new(n).into_owned();
    let owned_r = memmem::FinderRev::new(n).into_owned();
    acc += step!("owned Finder: find / as_ref / find_iter / needle", {
        let g = owned_f.as_ref();
        let mut k = owned_f.find(h).unwrap_or(0) + g.find(h).unwrap_or(0) + owned_f.needle().len();
        for p in owned_f.find_iter(h) { k += p }
        k
    });
    acc += step!("owned FinderRev: rfind / as_ref / rfind_iter / needle", {
        let g = owned_r.as_ref();
        let mut k = owned_r.rfind(h).unwrap_or(0) + g.rfind(h).unwrap_or(0) + owned_r.needle().len();
        for p in owned_r.rfind_iter(h) { k += p }
        k
    });
    acc += step!("memmem::FinderBuilder (no prefilter)", {
        let mut b = memmem::FinderBuilder::new();
        b.prefilter(memmem::Prefilter::None);
        b.build_forward(n).find(h).unwrap_or(0) + b.build_reverse(n).rfind(h).unwrap_or(0)
    });
    acc += step!("memmem::FinderBuilder (custom ranker)", memmem::FinderBuilder::new().build_forward_with_ranker(ConstRank(c.variant as u8), n).find(h).unwrap_or(0));
    acc += step!("arch::all::twoway", arch::all::twoway::Finder::new(n).find(h, n).unwrap_or(0) + arch::all::twoway::FinderRev::new(n).rfind(h, n).unwrap_or(0));
    acc += step!("arch::all::rabinkarp", arch::all::rabinkarp::Finder::new(n).find(h, n).unwrap_or(0) + arch::all::rabinkarp::FinderRev::new(n).rfind(h, n).unwrap_or(0));
    acc += step!("arch::all::packedpair", arch::all::packedpair::Finder::new(n).map(|f| f.find_prefilter(h).unwrap_or(0)).unwrap_or(0));
    acc += step!("arch::all::is_prefix/is_suffix/is_equal", arch::all::is_prefix(h, n) as usize + arch::all::is_suffix(h, n) as usize + arch::all::is_equal(h, n) as usize);
    std::hint::black_box(acc);
    if bad != 0 {
        return Err(format!("{} heap allocation(s) during searching calls; first in: {}", bad, what));
    }
    Ok(())
}

fn gen_case(family: &str, rng: &mut Rng, k: u64) -> Case {
    let variant = rng.below(1 << 12);
    let align = rng.below(64);
    match family {
        "byte" => {
            let nn = 1 + (k % 3) as usize;
            let alpha = [b'a', b'b', 0u8, 0x80, 0xff, b'c', 0x7f, b'\n', b'/'];
            let n: Vec<u8> = (0..nn).map(|_| alpha[rng.below(alpha.len())]).collect();
            // every 16th case is long (2000..9000 bytes) and dense in needle bytes: per-lane / narrow accumulators of
            // counting loops, block-wise reductions and unrolled loops with many iterations only show there
            let long = k % 16 == 7;
            let len = if long { 2000 + rng.below(7000) } else { match k % 5 {
                0 => rng.below(40),
                1 => 60 + rng.below(80),
                2 => 120 + rng.below(200),
                3 => 250 + rng.below(300),
                _ => rng.below(600),
            } };
            let fill = b'.';
            let mut h = vec![fill; len];
            if long {
                let holes = if k % 32 == 7 { 0 } else { 1 + rng.below(64) };
                for x in h.iter_mut() {
                    *x = n[0];
                }
                for _ in 0..holes {
                    let p = rng.below(len);
                    h[p] = fill;
                }
            }
            // sparse or dense needles at interesting places
            let hits = match k % 4 { 0 => 0, 1 => 1, 2 => 2, _ => rng.below(8) };
            for _ in 0..hits {
                if len > 0 {
                    let p = rng.below(len);
                    h[p] = n[rng.below(nn)];
                }
            }
            if k % 11 == 0 && len > 0 {
                for x in h.iter_mut() {
                    if rng.below(3) == 0 {
                        *x = n[0];
                    }
                }
            }
            if k % 2 == 1 && len > 0 {
                // confusable bytes: one bit / one unit away from a needle byte, sprinkled and planted next to hits, so
                // that borrow/carry mistakes of word-at-a-time tricks and wrong lane masks become visible
                let conf = |rng: &mut Rng, nb: u8| -> u8 {
                    match rng.below(8) {
                        0 => nb ^ 1,
                        1 => nb ^ 0x80,
                        2 => nb.wrapping_add(1),
                        3 => nb.wrapping_sub(1),
                        4 => !nb,
                        5 => nb ^ 0x81,
                        6 => nb ^ 0x7f,
                        _ => nb ^ (1u8 << rng.below(8)),
                    }
                };
                let m = 1 + rng.below(1 + len / 3);
                for _ in 0..m {
                    let p = rng.below(len);
                    let nb = n[rng.below(nn)];
                    if h[p] == fill {
                        h[p] = conf(rng, nb);
                    }
                }
                for p in 0..len {
                    if n.contains(&h[p]) && rng.below(2) == 0 {
                        let nb = h[p];
                        let q = if rng.below(2) == 0 { p + 1 } else { p.wrapping_sub(1) };
                        if q < len && !n.contains(&h[q]) {
                            h[q] = conf(rng, nb);
                        }
                    }
                }
            }
            Case { n, h, align, variant }
        }
        _ => {
            // substring family: small alphabets, periodic needles, long needles (>32) from time to time
            // every 7th case draws from bytes that agree modulo 64 (and 32): confusable for byte sets, hashes and
            // masks that keep only some bits of a byte (approximate byte set `b % 64`, Shift-Or masks, rolling hashes)
            let alpha: &[u8] = if k % 7 == 3 { b"a!\xe1\xa1" } else if k % 3 == 0 { b"ab" } else if k % 3 == 1 { b"abc" } else { b"ab\x00z" };
            let nlen = match k % 9 {
                0 => 0,
                1 => 1,
                2 | 3 => 2 + rng.below(4),
                4 | 5 => 2 + rng.below(14),
                6 => 30 + rng.below(8),
                7 => 33 + rng.below(40),
                _ => 2 + rng.below(30),
            };
            let nlen = if k % 29 == 7 { 250 + rng.below(60) } else { nlen };
            let mut n: Vec<u8> = (0..nlen).map(|_| alpha[rng.below(alpha.len())]).collect();
            if k % 29 == 7 {
                // long needle whose rarest byte sits around offsets 253..258 (pair offsets are u8, capped at 254)
                let p = (253 + rng.below(6)).min(nlen - 1);
                n[p] = b'Z';
            }
            if k % 4 == 0 && nlen > 2 {
                // make it periodic
                let p = 1 + rng.below(nlen / 2);
                for i in p..nlen {
                    n[i] = n[i - p];
                }
            }
            if k % 13 == 0 && nlen > 3 {
                n[nlen - 1] = b'Z';
                n[nlen - 2] = b'q';
            }
            let hlen = match k % 6 {
                0 => rng.below(20),
                1 => 10 + rng.below(60),
                2 => 60 + rng.below(40),
                3 => 90 + rng.below(300),
                _ => rng.below(130),
            };
            let mut h: Vec<u8> = (0..hlen).map(|_| alpha[rng.below(alpha.len())]).collect();
            // plant occurrences / near occurrences
            for _ in 0..rng.below(4) {
                if nlen > 0 && hlen >= nlen {
                    let p = if rng.below(3) == 0 { hlen - nlen } else { rng.below(hlen - nlen + 1) };
                    h[p..p + nlen].copy_from_slice(&n);
                    if rng.below(3) == 0 {
                        h[p + rng.below(nlen)] = b'x';
                    }
                }
            }
            if k % 17 == 0 && nlen > 0 {
                // haystack made of needle factors
                let mut i = 0;
                while i < hlen {
                    let a = rng.below(nlen);
                    let l = (1 + rng.below(nlen - a)).min(hlen - i);
                    h[i..i + l].copy_from_slice(&n[a..a + l]);
                    i += l;
                }
            }
            Case { n, h, align, variant }
        }
    }
}

fn run_case(family: &str, c: &Case, mem: Option<&Guarded>) -> Result<(), String> {
    let r = catch_unwind(AssertUnwindSafe(|| match family {
        "byte" | "bytemem" => check_byte(c, mem),
        "alloc" => check_alloc(c),
        _ => check_sub(c, mem),
    }));
    match r {
        Ok(x) => x,
        Err(p) => {
            let msg = p.downcast_ref::<String>().cloned().or_else(|| p.downcast_ref::<&str>().map(|s| s.to_string())).unwrap_or_default();
            Err(format!("panic: {}", msg))
        }
    }
}

fn main() {
    let args: Vec<String> = std::env::args().collect();
    std::panic::set_hook(Box::new(|_| {}));
    if args[1] == "replay" {
        let family = &args[2];
        let c = Case { n: unhex(&args[3]), h: unhex(&args[4]), align: args[5].parse().unwrap(), variant: args[6].parse().unwrap() };
        let g = if family.ends_with("mem") { Some(Guarded::new(4)) } else { None };
        match run_case(family, &c, g.as_ref()) {
            Ok(()) => {
                println!("{{\"fail\": null}}");
            }
            Err(e) => {
                println!("{{\"fail\": {:?}}}", e);
                std::process::exit(1);
            }
        }
        return;
    }
    let family = args[2].clone();
    let seed: u64 = args[3].parse().unwrap_or(1);
    let budget: u128 = args[4].parse().unwrap_or(5000);
    let casefile = args.get(5).cloned();
    let mut rng = Rng(seed.wrapping_mul(0x9E3779B97F4A7C15) | 1);
    let g = if family.ends_with("mem") { Some(Guarded::new(4)) } else { None };
    let t0 = std::time::Instant::now();
    let mut k = 0u64;
    while t0.elapsed().as_millis() < budget {
        let c = gen_case(if family.starts_with("byte") { "byte" } else { "sub" }, &mut rng, k);
        if g.is_some() && c.h.len() > 4 * PAGE {
            k += 1;
            continue;
        }
        if let Some(f) = &casefile {
            // written BEFORE the call so that a crash (SIGSEGV on a guard page) leaves the culprit behind
            let _ = std::fs::write(f, format!("{} {} {} {} {}", family, hex(&c.n), hex(&c.h), c.align, c.variant));
        }
        if let Err(e) = run_case(&family, &c, g.as_ref()) {
            println!(
                "{{\"fail\": {:?}, \"family\": {:?}, \"needle\": {:?}, \"haystack\": {:?}, \"align\": {}, \"variant\": {}, \"cases\": {}}}",
                e, family, hex(&c.n), hex(&c.h), c.align, c.variant, k
            );
            return;
        }
        k += 1;
    }
    println!("{{\"fail\": null, \"cases\": {}}}", k);
}
