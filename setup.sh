#!/bin/sh
# offline setup: nothing to build ahead of time except a sanity check of the tools
set -e
cd "$(dirname "$0")"
verus --version >/dev/null
python3 -c "import json,sys; json.load(open('MANIFEST.json'))"
mkdir -p work evidence replay
exit 0
