#!/bin/sh
# offline setup: check the tools and pre-build the replayer (checks rebuild it incrementally against /repo)
set -e
cd "$(dirname "$0")"
verus --version >/dev/null
python3 -c "import json; json.load(open('MANIFEST.json'))"
mkdir -p work evidence replay
cp /repo/Cargo.lock replayer/Cargo.lock 2>/dev/null || true
(cd replayer && CARGO_NET_OFFLINE=true cargo build --offline >/dev/null 2>&1) || echo "warning: replayer did not build (counterexample search disabled)"
exit 0
