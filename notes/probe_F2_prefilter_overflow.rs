fn main() {
    let step = 56usize;
    let calls: usize = (1usize << 29) + 4096;
    let len = calls * step + 4096;
    let mut needle = vec![b'a'; 42];
    needle[0] = 0xFA;
    needle[1] = 0xFB;
    let mut hay = vec![b'b'; len];
    let mut i = 0;
    while i + 2 < len { hay[i] = 0xFA; hay[i + 2] = b'a'; i += step; }
    let pp = memchr::arch::x86_64::avx2::packedpair::Finder::new(&needle).unwrap();
    eprintln!("pair {:?} prefilter first {:?}", pp.pair(), pp.find_prefilter(&hay));
    let f = memchr::memmem::Finder::new(&needle);
    let r = f.find(&hay);
    println!("result {:?}", r);
}
