#![feature(sized_hierarchy)]
#![allow(unused)]
use vstd::prelude::*;
verus! {
global size_of usize == 8;

pub mod base {
use super::*;
// ---- trusted pointer/memory model ----
pub uninterp spec fn mem(a: int) -> u8;
pub uninterp spec fn readable(a: int) -> bool;
pub uninterp spec fn inb(a: int) -> bool;

pub open spec fn addr<T>(p: *const T) -> int { p as usize as int }

pub assume_specification<T: core::marker::PointeeSized>[ <*const T as core::cmp::PartialOrd>::lt ](a: &*const T, b: &*const T) -> (r: bool)
    ensures r == ((*a as *const u8 as usize) < (*b as *const u8 as usize));
pub assume_specification<T: core::marker::PointeeSized>[ <*const T as core::cmp::PartialOrd>::le ](a: &*const T, b: &*const T) -> (r: bool)
    ensures r == ((*a as *const u8 as usize) <= (*b as *const u8 as usize));
pub assume_specification<T: core::marker::PointeeSized>[ <*const T as core::cmp::PartialOrd>::ge ](a: &*const T, b: &*const T) -> (r: bool)
    ensures r == ((*a as *const u8 as usize) >= (*b as *const u8 as usize));
pub assume_specification<T: core::marker::PointeeSized>[ <*const T as core::cmp::PartialOrd>::gt ](a: &*const T, b: &*const T) -> (r: bool)
    ensures r == ((*a as *const u8 as usize) > (*b as *const u8 as usize));

pub assume_specification<T>[ <*const T>::add ](p: *const T, n: usize) -> (r: *const T)
    requires inb(addr(p) + n * core::mem::size_of::<T>())
    ensures addr(r) == addr(p) + n * core::mem::size_of::<T>();

pub assume_specification<T>[ <*const T>::sub ](p: *const T, n: usize) -> (r: *const T)
    requires inb(addr(p) - n * core::mem::size_of::<T>())
    ensures addr(r) == addr(p) - n * core::mem::size_of::<T>();

pub assume_specification<T>[ <*const T>::offset_from ](p: *const T, o: *const T) -> (r: isize)
    requires inb(addr(p)), inb(addr(o)), core::mem::size_of::<T>() == 1, isize::MIN <= addr(p) - addr(o) <= isize::MAX,
    ensures r == addr(p) - addr(o);

pub assume_specification<T, E>[ core::result::Result::<T, E>::unwrap_unchecked ](x: Result<T, E>) -> (r: T)
    requires x is Ok,
    ensures r == x->Ok_0;

pub open spec fn rdr(lo: int, hi: int) -> bool { forall|a: int| lo <= a < hi ==> readable(a) }
pub open spec fn inbr(lo: int, hi: int) -> bool { forall|a: int| lo <= a <= hi ==> inb(a) }

pub broadcast proof fn sz_prims()
    ensures #[trigger] core::mem::size_of::<u8>() == 1,
{}
// ---- ext.rs (verbatim + contracts) ----
pub trait Pointer: Sized {
    spec fn a(self) -> int;
    unsafe fn distance(self, origin: Self) -> (r: usize)
        requires inb(self.a()), inb(origin.a()), self.a() >= origin.a(), self.a() - origin.a() <= isize::MAX,
        ensures r == self.a() - origin.a();
    fn as_usize(self) -> (r: usize)
        ensures r == self.a();
}

impl Pointer for *const u8 {
    open spec fn a(self) -> int { addr(self) }
    unsafe fn distance(self, origin: *const u8) -> usize {
        // TODO: Replace with `ptr::sub_ptr` once stabilized.
        usize::try_from(self.offset_from(origin)).unwrap_unchecked()
    }

    fn as_usize(self) -> usize {
        self as usize
    }
}

// ---- vector.rs traits (verbatim + contracts) ----
pub trait Vector: Copy {
    const BYTES: usize;
    const ALIGN: usize;
    type Mask: MoveMask;

    spec fn lanes(self) -> Seq<u8>;

    proof fn consts()
        ensures (Self::BYTES == 16 || Self::BYTES == 32), Self::ALIGN == Self::BYTES - 1;

    unsafe fn splat(byte: u8) -> (r: Self)
        ensures r.lanes().len() == Self::BYTES, forall|i: int| 0 <= i < Self::BYTES ==> r.lanes()[i] == byte;

    unsafe fn load_aligned(data: *const u8) -> (r: Self)
        requires addr(data) % (Self::BYTES as int) == 0, rdr(addr(data), addr(data) + Self::BYTES),
        ensures r.lanes().len() == Self::BYTES, forall|i: int| 0 <= i < Self::BYTES ==> r.lanes()[i] == mem(addr(data) + i);

    unsafe fn load_unaligned(data: *const u8) -> (r: Self)
        requires rdr(addr(data), addr(data) + Self::BYTES),
        ensures r.lanes().len() == Self::BYTES, forall|i: int| 0 <= i < Self::BYTES ==> r.lanes()[i] == mem(addr(data) + i);

    unsafe fn movemask(self) -> (m: Self::Mask)
        requires self.lanes().len() == Self::BYTES, forall|i: int| 0 <= i < Self::BYTES ==> (self.lanes()[i] == 0 || self.lanes()[i] == 0xFF),
        ensures m.wf(), forall|i: int| 0 <= i < 32 ==> m.lane(i) == (i < Self::BYTES && self.lanes()[i] == 0xFF);

    unsafe fn cmpeq(self, vector2: Self) -> (r: Self)
        requires self.lanes().len() == Self::BYTES, vector2.lanes().len() == Self::BYTES,
        ensures r.lanes().len() == Self::BYTES, forall|i: int| 0 <= i < Self::BYTES ==> r.lanes()[i] == (if self.lanes()[i] == vector2.lanes()[i] { 0xFFu8 } else { 0u8 });

    unsafe fn and(self, vector2: Self) -> (r: Self)
        requires self.lanes().len() == Self::BYTES, vector2.lanes().len() == Self::BYTES,
        ensures r.lanes().len() == Self::BYTES, forall|i: int| 0 <= i < Self::BYTES ==> r.lanes()[i] == (self.lanes()[i] & vector2.lanes()[i]);

    unsafe fn or(self, vector2: Self) -> (r: Self)
        requires self.lanes().len() == Self::BYTES, vector2.lanes().len() == Self::BYTES,
        ensures r.lanes().len() == Self::BYTES, forall|i: int| 0 <= i < Self::BYTES ==> r.lanes()[i] == (self.lanes()[i] | vector2.lanes()[i]);

    unsafe fn movemask_will_have_non_zero(self) -> (r: bool)
        requires self.lanes().len() == Self::BYTES, forall|i: int| 0 <= i < Self::BYTES ==> (self.lanes()[i] == 0 || self.lanes()[i] == 0xFF),
        ensures r == exists|i: int| 0 <= i < Self::BYTES && self.lanes()[i] == 0xFF;
}

pub trait MoveMask: Copy {
    spec fn lane(self, i: int) -> bool;
    spec fn wf(self) -> bool;

    fn has_non_zero(self) -> (r: bool)
        requires self.wf(),
        ensures r == exists|i: int| 0 <= i < 32 && self.lane(i);

    fn count_ones(self) -> (r: usize)
        requires self.wf(),
        ensures r == count_true(|i: int| self.lane(i), 32);

    fn and(self, other: Self) -> (r: Self)
        requires self.wf(), other.wf(),
        ensures r.wf(), forall|i: int| 0 <= i < 32 ==> r.lane(i) == (self.lane(i) && other.lane(i));

    fn or(self, other: Self) -> (r: Self)
        requires self.wf(), other.wf(),
        ensures r.wf(), forall|i: int| 0 <= i < 32 ==> r.lane(i) == (self.lane(i) || other.lane(i));

    fn first_offset(self) -> (r: usize)
        requires self.wf(), exists|i: int| 0 <= i < 32 && self.lane(i),
        ensures 0 <= r < 32, self.lane(r as int), forall|i: int| 0 <= i < r ==> !self.lane(i);

    fn last_offset(self) -> (r: usize)
        requires self.wf(), exists|i: int| 0 <= i < 32 && self.lane(i),
        ensures 0 <= r < 32, self.lane(r as int), forall|i: int| r < i < 32 ==> !self.lane(i);
}

pub open spec fn count_true(f: spec_fn(int) -> bool, n: int) -> nat
    decreases n
{
    if n <= 0 { 0 } else { count_true(f, n - 1) + (if f(n - 1) { 1nat } else { 0nat }) }
}

pub open spec fn vbytes<V: Vector>() -> int { V::BYTES as int }
pub broadcast proof fn vector_consts<V: Vector>()
    ensures (#[trigger] V::BYTES == 16 || V::BYTES == 32), V::ALIGN == V::BYTES - 1
{
    V::consts();
}
pub proof fn lemma_align(x: usize, b: usize)
    requires b == 16 || b == 32,
    ensures (x & ((b - 1) as usize)) < b, (x & ((b - 1) as usize)) == x % b,
{
    assert(((x as u64) & 15u64) < 16 && ((x as u64) & 15u64) == (x as u64) % 16u64) by(bit_vector);
    assert(((x as u64) & 31u64) < 32 && ((x as u64) & 31u64) == (x as u64) % 32u64) by(bit_vector);
}

pub proof fn lemma_bool_or(x: u8, y: u8)
    requires x == 0 || x == 0xFF, y == 0 || y == 0xFF,
    ensures (x | y) == 0 || (x | y) == 0xFF, ((x | y) == 0xFF) <==> (x == 0xFF || y == 0xFF),
{
    assert((0u8 | 0u8) == 0u8 && (0u8 | 0xFFu8) == 0xFFu8 && (0xFFu8 | 0u8) == 0xFFu8 && (0xFFu8 | 0xFFu8) == 0xFFu8) by(bit_vector);
}

pub open spec fn is_bool_vec<V: Vector>(v: V) -> bool {
    v.lanes().len() == V::BYTES && forall|i: int| 0 <= i < V::BYTES ==> (#[trigger] v.lanes()[i] == 0 || v.lanes()[i] == 0xFF)
}

pub open spec fn offset_fn<M: MoveMask, F: Fn(M) -> usize>(f: F) -> bool {
    &&& forall|m: M| m.wf() && (exists|i: int| 0 <= i < 32 && m.lane(i)) ==> #[trigger] f.requires((m,))
    &&& forall|m: M, o: usize| #[trigger] f.ensures((m,), o) ==> 0 <= o < 32 && m.lane(o as int)
}
pub open spec fn first_fn<M: MoveMask, F: Fn(M) -> usize>(f: F) -> bool {
    forall|m: M, o: usize| #[trigger] f.ensures((m,), o) ==> forall|i: int| 0 <= i < o ==> !m.lane(i)
}
pub open spec fn last_fn<M: MoveMask, F: Fn(M) -> usize>(f: F) -> bool {
    forall|m: M, o: usize| #[trigger] f.ensures((m,), o) ==> forall|i: int| o < i < 32 ==> !m.lane(i)
}
}
pub mod gen {
use super::*;
use super::base::*;
broadcast use {vector_consts, sz_prims};
// ---- generic/memchr.rs One (verbatim + contracts) ----
#[derive(Clone, Copy)]
pub struct One<V> {
    pub s1: u8,
    pub v1: V,
}

impl<V: Vector> One<V> {
    const LOOP_SIZE: usize = 4 * V::BYTES;

    pub closed spec fn wf(&self) -> bool {
        self.v1.lanes().len() == V::BYTES && forall|i: int| 0 <= i < V::BYTES ==> self.v1.lanes()[i] == self.s1
    }

    #[inline(always)]
    pub unsafe fn new(needle: u8) -> (r: One<V>)
        ensures r.wf(), r.s1 == needle
    {
        One { s1: needle, v1: V::splat(needle) }
    }

    #[inline(always)]
    pub unsafe fn search_chunk(
        &self,
        cur: *const u8,
        mask_to_offset: impl Fn(V::Mask) -> usize,
    ) -> (r: Option<*const u8>)
        requires self.wf(), rdr(addr(cur), addr(cur) + V::BYTES), inbr(addr(cur), addr(cur) + V::BYTES),
            offset_fn::<V::Mask, _>(mask_to_offset),
        ensures
            match r {
                Some(p) => addr(cur) <= addr(p) < addr(cur) + V::BYTES && mem(addr(p)) == self.s1
                    && (first_fn::<V::Mask, _>(mask_to_offset) ==> forall|a: int| addr(cur) <= a < addr(p) ==> mem(a) != self.s1)
                    && (last_fn::<V::Mask, _>(mask_to_offset) ==> forall|a: int| addr(p) < a < addr(cur) + V::BYTES ==> mem(a) != self.s1),
                None => forall|a: int| addr(cur) <= a < addr(cur) + V::BYTES ==> mem(a) != self.s1,
            }
    {
        proof { V::consts(); }
        let chunk = V::load_unaligned(cur);
        let mask = self.v1.cmpeq(chunk).movemask();
        if mask.has_non_zero() {
            proof {
                assert forall|a: int| addr(cur) <= a < addr(cur) + V::BYTES implies (mask.lane(a - addr(cur)) <==> mem(a) == self.s1) by {
                    let i = a - addr(cur);
                    assert(chunk.lanes()[i] == mem(addr(cur) + i));
                }
                assert forall|of: usize| #[trigger] mask_to_offset.ensures((mask,), of) implies
                    of < V::BYTES && mem(addr(cur) + of) == self.s1
                    && (first_fn::<V::Mask, _>(mask_to_offset) ==> forall|a: int| addr(cur) <= a < addr(cur) + of ==> mem(a) != self.s1)
                    && (last_fn::<V::Mask, _>(mask_to_offset) ==> forall|a: int| addr(cur) + of < a < addr(cur) + V::BYTES ==> mem(a) != self.s1) by {
                    assert(mask.lane(of as int));
                    if first_fn::<V::Mask, _>(mask_to_offset) {
                        assert forall|a: int| addr(cur) <= a < addr(cur) + of implies mem(a) != self.s1 by {
                            assert(!mask.lane(a - addr(cur)));
                        }
                    }
                    if last_fn::<V::Mask, _>(mask_to_offset) {
                        assert forall|a: int| addr(cur) + of < a < addr(cur) + V::BYTES implies mem(a) != self.s1 by {
                            assert(!mask.lane(a - addr(cur)));
                        }
                    }
                }
            }
            Some(cur.add(mask_to_offset(mask)))
        } else {
            proof {
                assert forall|a: int| addr(cur) <= a < addr(cur) + V::BYTES implies mem(a) != self.s1 by {
                    let i = a - addr(cur);
                    assert(!mask.lane(i));
                    assert(chunk.lanes()[i] == mem(addr(cur) + i));
                }
            }
            None
        }
    }

    pub unsafe fn caller(&self, start: *const u8) -> (r: Option<*const u8>)
        requires self.wf(), rdr(addr(start), addr(start) + V::BYTES), inbr(addr(start), addr(start) + V::BYTES),
    {
        let topos = V::Mask::first_offset;
        self.search_chunk(start, topos)
    }
}
impl<V: Vector> One<V> {
    pub open spec fn hit(&self, a: int) -> bool { mem(a) == self.s1 }

    #[inline(always)]
    pub unsafe fn find_raw(
        &self,
        start: *const u8,
        end: *const u8,
    ) -> (r: Option<*const u8>)
        requires
            self.wf(),
            addr(start) + V::BYTES <= addr(end),
            addr(end) - addr(start) <= isize::MAX,
            rdr(addr(start), addr(end)),
            inbr(addr(start), addr(end)),
        ensures
            match r {
                Some(p) => addr(start) <= addr(p) < addr(end) && self.hit(addr(p))
                    && forall|a: int| addr(start) <= a < addr(p) ==> !self.hit(a),
                None => forall|a: int| addr(start) <= a < addr(end) ==> !self.hit(a),
            }
    {
        // If we want to support vectors bigger than 256 bits, we probably
        // need to move up to using a u64 for the masks used below. Currently
        // they are 32 bits, which means we're SOL for vectors that need masks
        // bigger than 32 bits. Overall unclear until there's a use case.
        { let da: bool = V::BYTES <= 32; assert(da); }

        let topos = V::Mask::first_offset;
        assert(offset_fn::<V::Mask, _>(topos) && first_fn::<V::Mask, _>(topos));
        let len = end.distance(start);
        { let da: bool = len >= V::BYTES; assert(da); }

        // Search a possibly unaligned chunk at `start`. This covers any part
        // of the haystack prior to where aligned loads can start.
        if let Some(cur) = self.search_chunk(start, topos) {
            return Some(cur);
        }
        // Set `cur` to the first V-aligned pointer greater than `start`.
        proof { lemma_align(start as usize, V::BYTES); }
        let mut cur = start.add(V::BYTES - (start.as_usize() & V::ALIGN));
        { let da: bool = cur > start && end.sub(V::BYTES) >= start; assert(da); }
        if len >= Self::LOOP_SIZE {
            while cur <= end.sub(Self::LOOP_SIZE)
                invariant
                    self.wf(), offset_fn::<V::Mask, _>(topos), first_fn::<V::Mask, _>(topos),
                    addr(start) < addr(cur) <= addr(end),
                    addr(cur) % (V::BYTES as int) == 0,
                    len >= Self::LOOP_SIZE, len == addr(end) - addr(start), len <= isize::MAX,
                    rdr(addr(start), addr(end)),
                    inbr(addr(start), addr(end)),
                    forall|a: int| addr(start) <= a < addr(cur) ==> !self.hit(a),
                decreases addr(end) - addr(cur),
            {
                { let l = 0; let r = cur.as_usize() % V::BYTES; assert(l == r); }

                let a = V::load_aligned(cur);
                let b = V::load_aligned(cur.add(1 * V::BYTES));
                let c = V::load_aligned(cur.add(2 * V::BYTES));
                let d = V::load_aligned(cur.add(3 * V::BYTES));
                let eqa = self.v1.cmpeq(a);
                let eqb = self.v1.cmpeq(b);
                let eqc = self.v1.cmpeq(c);
                let eqd = self.v1.cmpeq(d);
                proof {
                    assert forall|i: int| 0 <= i < V::BYTES implies
                        (#[trigger] eqa.lanes()[i] == 0xFF <==> self.hit(addr(cur) + i))
                        && (#[trigger] eqb.lanes()[i] == 0xFF <==> self.hit(addr(cur) + V::BYTES + i))
                        && (#[trigger] eqc.lanes()[i] == 0xFF <==> self.hit(addr(cur) + 2 * V::BYTES + i))
                        && (#[trigger] eqd.lanes()[i] == 0xFF <==> self.hit(addr(cur) + 3 * V::BYTES + i)) by {
                        assert(a.lanes()[i] == mem(addr(cur) + i));
                        assert(b.lanes()[i] == mem(addr(cur) + V::BYTES + i));
                        assert(c.lanes()[i] == mem(addr(cur) + 2 * V::BYTES + i));
                        assert(d.lanes()[i] == mem(addr(cur) + 3 * V::BYTES + i));
                    }
                }
                let or1 = eqa.or(eqb);
                let or2 = eqc.or(eqd);
                let or3 = or1.or(or2);
                proof {
                    assert forall|i: int| 0 <= i < V::BYTES implies (#[trigger] or3.lanes()[i] == 0 || or3.lanes()[i] == 0xFF)
                        && (or3.lanes()[i] == 0xFF <==> (eqa.lanes()[i] == 0xFF || eqb.lanes()[i] == 0xFF || eqc.lanes()[i] == 0xFF || eqd.lanes()[i] == 0xFF)) by {
                        lemma_bool_or(eqa.lanes()[i], eqb.lanes()[i]);
                        lemma_bool_or(eqc.lanes()[i], eqd.lanes()[i]);
                        lemma_bool_or(or1.lanes()[i], or2.lanes()[i]);
                    }
                }
                if or3.movemask_will_have_non_zero() {
                    let mask = eqa.movemask();
                    if mask.has_non_zero() {
                        proof {
                            assert forall|a: int| addr(cur) <= a < addr(cur) + V::BYTES implies (mask.lane(a - (addr(cur))) <==> self.hit(a)) by { }
                            assert forall|of: usize| #[trigger] topos.ensures((mask,), of) implies
                                of < V::BYTES && self.hit(addr(cur) + of) && (forall|a: int| addr(cur) <= a < addr(cur) + of ==> !self.hit(a)) by {
                                assert(mask.lane(of as int));
                                assert forall|a: int| addr(cur) <= a < addr(cur) + of implies !self.hit(a) by {
                                    assert(!mask.lane(a - (addr(cur))));
                                }
                            }
                        }
                        return Some(cur.add(topos(mask)));
                    }

                    proof {
                        assert forall|a: int| addr(cur) <= a < addr(cur) + V::BYTES implies !self.hit(a) by {
                            assert(!mask.lane(a - (addr(cur))));
                        }
                    }
                    let mask = eqb.movemask();
                    if mask.has_non_zero() {
                        proof {
                            assert forall|a: int| addr(cur) + 1 * V::BYTES <= a < addr(cur) + 1 * V::BYTES + V::BYTES implies (mask.lane(a - (addr(cur) + 1 * V::BYTES)) <==> self.hit(a)) by { }
                            assert forall|of: usize| #[trigger] topos.ensures((mask,), of) implies
                                of < V::BYTES && self.hit(addr(cur) + 1 * V::BYTES + of) && (forall|a: int| addr(cur) + 1 * V::BYTES <= a < addr(cur) + 1 * V::BYTES + of ==> !self.hit(a)) by {
                                assert(mask.lane(of as int));
                                assert forall|a: int| addr(cur) + 1 * V::BYTES <= a < addr(cur) + 1 * V::BYTES + of implies !self.hit(a) by {
                                    assert(!mask.lane(a - (addr(cur) + 1 * V::BYTES)));
                                }
                            }
                        }
                        return Some(cur.add(1 * V::BYTES).add(topos(mask)));
                    }

                    proof {
                        assert forall|a: int| addr(cur) + 1 * V::BYTES <= a < addr(cur) + 1 * V::BYTES + V::BYTES implies !self.hit(a) by {
                            assert(!mask.lane(a - (addr(cur) + 1 * V::BYTES)));
                        }
                    }
                    let mask = eqc.movemask();
                    if mask.has_non_zero() {
                        proof {
                            assert forall|a: int| addr(cur) + 2 * V::BYTES <= a < addr(cur) + 2 * V::BYTES + V::BYTES implies (mask.lane(a - (addr(cur) + 2 * V::BYTES)) <==> self.hit(a)) by { }
                            assert forall|of: usize| #[trigger] topos.ensures((mask,), of) implies
                                of < V::BYTES && self.hit(addr(cur) + 2 * V::BYTES + of) && (forall|a: int| addr(cur) + 2 * V::BYTES <= a < addr(cur) + 2 * V::BYTES + of ==> !self.hit(a)) by {
                                assert(mask.lane(of as int));
                                assert forall|a: int| addr(cur) + 2 * V::BYTES <= a < addr(cur) + 2 * V::BYTES + of implies !self.hit(a) by {
                                    assert(!mask.lane(a - (addr(cur) + 2 * V::BYTES)));
                                }
                            }
                        }
                        return Some(cur.add(2 * V::BYTES).add(topos(mask)));
                    }

                    proof {
                        assert forall|a: int| addr(cur) + 2 * V::BYTES <= a < addr(cur) + 2 * V::BYTES + V::BYTES implies !self.hit(a) by {
                            assert(!mask.lane(a - (addr(cur) + 2 * V::BYTES)));
                        }
                    }
                    let mask = eqd.movemask();
                    proof {
                        let w = choose|i: int| 0 <= i < V::BYTES && or3.lanes()[i] == 0xFF;
                        assert(eqa.lanes()[w] == 0xFF || eqb.lanes()[w] == 0xFF || eqc.lanes()[w] == 0xFF || eqd.lanes()[w] == 0xFF);
                        assert(!self.hit(addr(cur) + w) && !self.hit(addr(cur) + V::BYTES + w) && !self.hit(addr(cur) + 2 * V::BYTES + w));
                        assert(mask.lane(w));
                    }
                    { let da: bool = mask.has_non_zero(); assert(da); }
                    proof {
                        assert forall|a: int| addr(cur) + 3 * V::BYTES <= a < addr(cur) + 3 * V::BYTES + V::BYTES implies (mask.lane(a - (addr(cur) + 3 * V::BYTES)) <==> self.hit(a)) by { }
                        assert forall|of: usize| #[trigger] topos.ensures((mask,), of) implies
                            of < V::BYTES && self.hit(addr(cur) + 3 * V::BYTES + of) && (forall|a: int| addr(cur) + 3 * V::BYTES <= a < addr(cur) + 3 * V::BYTES + of ==> !self.hit(a)) by {
                            assert(mask.lane(of as int));
                            assert forall|a: int| addr(cur) + 3 * V::BYTES <= a < addr(cur) + 3 * V::BYTES + of implies !self.hit(a) by {
                                assert(!mask.lane(a - (addr(cur) + 3 * V::BYTES)));
                            }
                        }
                    }
                    return Some(cur.add(3 * V::BYTES).add(topos(mask)));
                }
                proof {
                    assert forall|a: int| addr(cur) <= a < addr(cur) + 4 * V::BYTES implies !self.hit(a) by {
                        let bb = V::BYTES as int;
                        let off = a - addr(cur);
                        let i = if off < bb { off } else if off < 2 * bb { off - bb } else if off < 3 * bb { off - 2 * bb } else { off - 3 * bb };
                        assert(0 <= i < bb);
                        assert(or3.lanes()[i] != 0xFF);
                        assert(eqa.lanes()[i] != 0xFF && eqb.lanes()[i] != 0xFF && eqc.lanes()[i] != 0xFF && eqd.lanes()[i] != 0xFF);
                        assert(!self.hit(addr(cur) + i) && !self.hit(addr(cur) + V::BYTES + i) && !self.hit(addr(cur) + 2 * V::BYTES + i) && !self.hit(addr(cur) + 3 * V::BYTES + i));
                    }
                    assert((addr(cur) + 4 * V::BYTES) % (V::BYTES as int) == 0) by(nonlinear_arith)
                        requires addr(cur) % (V::BYTES as int) == 0, V::BYTES > 0;
                }
                cur = cur.add(Self::LOOP_SIZE);
            }
        }
        // Handle any leftovers after the aligned loop above. We use unaligned
        // loads here, but I believe we are guaranteed that they are aligned
        // since `cur` is aligned.
        while cur <= end.sub(V::BYTES)
            invariant
                self.wf(), offset_fn::<V::Mask, _>(topos), first_fn::<V::Mask, _>(topos),
                addr(start) < addr(cur) <= addr(end),
                addr(start) + V::BYTES <= addr(end), addr(end) - addr(start) <= isize::MAX,
                rdr(addr(start), addr(end)),
                inbr(addr(start), addr(end)),
                forall|a: int| addr(start) <= a < addr(cur) ==> !self.hit(a),
            decreases addr(end) - addr(cur),
        {
            { let da: bool = end.distance(cur) >= V::BYTES; assert(da); }
            if let Some(cur) = self.search_chunk(cur, topos) {
                return Some(cur);
            }
            cur = cur.add(V::BYTES);
        }
        // Finally handle any remaining bytes less than the size of V. In this
        // case, our pointer may indeed be unaligned and the load may overlap
        // with the previous one. But that's okay since we know the previous
        // load didn't lead to a match (otherwise we wouldn't be here).
        if cur < end {
            { let da: bool = end.distance(cur) < V::BYTES; assert(da); }
            cur = cur.sub(V::BYTES - end.distance(cur));
            { let l = end.distance(cur); let r = V::BYTES; assert(l == r); }
            return self.search_chunk(cur, topos);
        }
        None
    }
}
}
} fn main(){}
