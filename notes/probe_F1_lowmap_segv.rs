use memchr::arch::x86_64::sse2::packedpair::Finder;
extern "C" {
    fn mmap(addr: *mut u8, len: usize, prot: i32, flags: i32, fd: i32, off: i64) -> *mut u8;
}
fn main() {
    unsafe {
        // one RW page at 0x1000; page 0x2000 stays unmapped
        let p = mmap(0x1000 as *mut u8, 4096, 3, 0x2 | 0x20 | 0x10, -1, 0);
        assert_eq!(p as usize, 0x1000);
        let hay_len = 32usize;
        let hay_ptr = (0x2000 - hay_len) as *mut u8; // haystack ends exactly at the page end
        for i in 0..hay_len { *hay_ptr.add(i) = b'a' + (i % 7) as u8; }
        let haystack: &[u8] = std::slice::from_raw_parts(hay_ptr, hay_len);
        // finder built for the 2-byte needle haystack[0..2]
        let n0 = [haystack[0], haystack[1]];
        let finder = Finder::new(&n0).expect("sse2");
        // a *different*, longer needle: haystack content followed by more bytes; len > address of haystack end (0x2000)
        let mut big = vec![0u8; 0x2000 + 64];
        for i in 0..big.len() { big[i] = b'a' + (i % 7) as u8; }
        println!("haystack @ {:p} len {}, needle len {} (> end address {:#x})", haystack.as_ptr(), haystack.len(), big.len(), 0x2000);
        let r = finder.find(haystack, &big); // safe call
        println!("returned {:?}", r);
    }
}
