use vstd::prelude::*;
use vstd::arithmetic::div_mod::*;
verus! {
pub uninterp spec fn mem(a: int) -> u8;
pub open spec fn M() -> int { 0x1_0000_0000 }

pub open spec fn hm(a: int, n: int) -> int
    decreases n
{
    if n <= 0 { 0 } else { (2 * hm(a, n - 1) + mem(a + n - 1)) % M() }
}
pub open spec fn p2(k: int) -> int
    decreases k
{
    if k <= 0 { 1 } else { (2 * p2(k - 1)) % M() }
}

// congruence helper: x ≡ y (mod M)
pub open spec fn cong(x: int, y: int) -> bool { x % M() == y % M() }

proof fn lemma_hm_range(a: int, n: int)
    ensures 0 <= hm(a, n) < M()
    decreases n
{
    if n > 0 { lemma_hm_range(a, n - 1); }
}

proof fn lemma_cong_lin(x: int, y: int, c: int, d: int)
    requires cong(x, y)
    ensures cong(c * x + d, c * y + d)
{
    lemma_mul_mod_noop_right(c, x, M());
    lemma_mul_mod_noop_right(c, y, M());
    lemma_add_mod_noop(c * x, d, M());
    lemma_add_mod_noop(c * y, d, M());
}

// main identity, as congruence: hm(a+1, n) ≡ 2*(hm(a,n) - mem(a)*p2(n-1)) + mem(a+n)
proof fn lemma_roll(a: int, n: int)
    requires n >= 1
    ensures cong(hm(a + 1, n), 2 * (hm(a, n) - mem(a) * p2(n - 1)) + mem(a + n))
    decreases n
{
    if n == 1 {
        // hm(a,1) = mem(a) % M = mem(a); p2(0) = 1; rhs = 2*(mem(a) - mem(a)) + mem(a+1) = mem(a+1)
        assert(hm(a, 0) == 0);
        assert(hm(a, 1) == (2 * 0 + mem(a + 1 - 1)) % M());
        assert(hm(a + 1, 0) == 0);
        assert(hm(a + 1, 1) == (2 * 0 + mem(a + 1 + 1 - 1)) % M());
        assert(p2(0) == 1);
        assert(mem(a) * 1 == mem(a) as int);
    } else {
        lemma_roll(a, n - 1);
        // IH: hm(a+1,n-1) ≡ 2*(hm(a,n-1) - mem(a)*p2(n-2)) + mem(a+n-1)
        let x = hm(a + 1, n - 1);
        let y = 2 * (hm(a, n - 1) - mem(a) * p2(n - 2)) + mem(a + n - 1);
        // lhs: hm(a+1,n) = (2x + mem(a+n)) % M  ≡ 2x + mem(a+n) ≡ 2y + mem(a+n)
        lemma_cong_lin(x, y, 2, mem(a + n) as int);
        lemma_mod_twice(2 * x + mem(a + n), M());
        // rhs: 2*(hm(a,n) - mem(a)*p2(n-1)) + mem(a+n)
        //   hm(a,n) ≡ 2*hm(a,n-1) + mem(a+n-1);  p2(n-1) ≡ 2*p2(n-2)
        let u = hm(a, n);
        let u2 = 2 * hm(a, n - 1) + mem(a + n - 1);
        lemma_mod_twice(u2, M());
        assert(cong(u, u2));
        let w = p2(n - 1);
        let w2 = 2 * p2(n - 2);
        lemma_mod_twice(w2, M());
        assert(cong(w, w2));
        // 2*(u - mem(a)*w) + c  ≡ 2*(u2 - mem(a)*w2) + c
        let c = mem(a + n) as int;
        let ma = mem(a) as int;
        lemma_cong_lin(u, u2, 2, -2 * ma * w + c);
        assert(2 * u + (-2 * ma * w + c) == 2 * (u - ma * w) + c) by(nonlinear_arith);
        assert(2 * u2 + (-2 * ma * w + c) == 2 * (u2 - ma * w) + c) by(nonlinear_arith);
        lemma_cong_lin(w, w2, -2 * ma, 2 * u2 + c);
        assert(-2 * ma * w + (2 * u2 + c) == 2 * (u2 - ma * w) + c) by(nonlinear_arith);
        assert(-2 * ma * w2 + (2 * u2 + c) == 2 * (u2 - ma * w2) + c) by(nonlinear_arith);
        // and 2*(u2 - ma*w2) + c == 2*y + c  (pure algebra)
        assert(2 * (u2 - ma * w2) + c == 2 * y + c) by(nonlinear_arith)
            requires u2 == 2 * hm(a, n - 1) + mem(a + n - 1), w2 == 2 * p2(n - 2),
                y == 2 * (hm(a, n - 1) - mem(a) * p2(n - 2)) + mem(a + n - 1), ma == mem(a) as int;
    }
}
}
fn main(){}
