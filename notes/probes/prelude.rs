// ---- trusted pointer/memory model ----
pub uninterp spec fn mem(a: int) -> u8;
pub uninterp spec fn readable(a: int) -> bool;
pub uninterp spec fn inb(a: int) -> bool;

pub open spec fn addr<T>(p: *const T) -> int { p as usize as int }

pub assume_specification<T: core::marker::PointeeSized>[ <*const T as core::cmp::PartialOrd>::lt ](a: &*const T, b: &*const T) -> (r: bool)
    ensures r == ((*a as *const u8 as usize) < (*b as *const u8 as usize));
pub assume_specification<T: core::marker::PointeeSized>[ <*const T as core::cmp::PartialOrd>::le ](a: &*const T, b: &*const T) -> (r: bool)
    ensures r == ((*a as *const u8 as usize) <= (*b as *const u8 as usize));
pub assume_specification<T: core::marker::PointeeSized>[ <*const T as core::cmp::PartialOrd>::ge ](a: &*const T, b: &*const T) -> (r: bool)
    ensures r == ((*a as *const u8 as usize) >= (*b as *const u8 as usize));
pub assume_specification<T: core::marker::PointeeSized>[ <*const T as core::cmp::PartialOrd>::gt ](a: &*const T, b: &*const T) -> (r: bool)
    ensures r == ((*a as *const u8 as usize) > (*b as *const u8 as usize));

pub assume_specification<T>[ <*const T>::add ](p: *const T, n: usize) -> (r: *const T)
    requires inb(addr(p) + n * core::mem::size_of::<T>())
    ensures addr(r) == addr(p) + n * core::mem::size_of::<T>();

pub assume_specification<T>[ <*const T>::sub ](p: *const T, n: usize) -> (r: *const T)
    requires inb(addr(p) - n * core::mem::size_of::<T>())
    ensures addr(r) == addr(p) - n * core::mem::size_of::<T>();

pub assume_specification<T>[ <*const T>::offset_from ](p: *const T, o: *const T) -> (r: isize)
    requires inb(addr(p)), inb(addr(o)), core::mem::size_of::<T>() == 1, isize::MIN <= addr(p) - addr(o) <= isize::MAX,
    ensures r == addr(p) - addr(o);

pub assume_specification<T, E>[ core::result::Result::<T, E>::unwrap_unchecked ](x: Result<T, E>) -> (r: T)
    requires x is Ok,
    ensures r == x->Ok_0;

pub open spec fn rdr(lo: int, hi: int) -> bool { forall|a: int| lo <= a < hi ==> readable(a) }
pub open spec fn inbr(lo: int, hi: int) -> bool { forall|a: int| lo <= a <= hi ==> inb(a) }

pub broadcast proof fn sz_prims()
    ensures #[trigger] core::mem::size_of::<u8>() == 1,
{}

pub uninterp spec fn as_bytes<T>(s: Seq<T>) -> Seq<u8>;
pub broadcast axiom fn as_bytes_u8(s: Seq<u8>)
    ensures #[trigger] as_bytes::<u8>(s) == s;

/// byte view of a u8 sequence placed in memory at address a
pub open spec fn slice_at(s: Seq<u8>, a: int) -> bool {
    forall|i: int| 0 <= i < s.len() ==> mem(a + i) == #[trigger] s[i]
}

pub assume_specification<T>[ <[T]>::as_ptr ](s: &[T]) -> (p: *const T)
    ensures
        as_bytes(s@).len() == s@.len() * core::mem::size_of::<T>(),
        rdr(addr(p), addr(p) + as_bytes(s@).len()),
        inbr(addr(p), addr(p) + as_bytes(s@).len()),
        slice_at(as_bytes(s@), addr(p)),
        addr(p) + as_bytes(s@).len() <= usize::MAX,
        as_bytes(s@).len() <= isize::MAX;

pub assume_specification<T: core::cmp::Ord>[core::cmp::max](a: T, b: T) -> (r: T)
    ensures r == (if a.cmp_spec(&b) == core::cmp::Ordering::Greater { a } else { b });

pub open spec fn at(b: int, i: int) -> u8 { mem(b + i) }
pub open spec fn mem_eq(x: int, y: int, n: int) -> bool {
    forall|i: int| 0 <= i < n ==> #[trigger] at(x, i) == at(y, i)
}

pub open spec fn popcount32(x: u32, n: int) -> nat
    decreases n
{
    if n <= 0 { 0 } else { popcount32(x, n - 1) + (if (x >> ((n - 1) as u32)) & 1 == 1 { 1nat } else { 0nat }) }
}
pub assume_specification[ u32::count_ones ](x: u32) -> (r: u32)
    ensures r == popcount32(x, 32);

/// Rust guarantees that a slice spans at most isize::MAX bytes.
pub broadcast axiom fn slice_len_bound<T>(s: &[T])
    ensures #[trigger] s@.len() <= isize::MAX;

// ---- typed reads ----
pub uninterp spec fn val_bytes<T>(v: T) -> Seq<u8>;
pub broadcast axiom fn val_bytes_u8(v: u8)
    ensures (#[trigger] val_bytes::<u8>(v)).len() == 1, val_bytes::<u8>(v)[0] == v;
pub broadcast axiom fn val_bytes_u16(v: u16)
    ensures (#[trigger] val_bytes::<u16>(v)).len() == 2,
        val_bytes::<u16>(v)[0] == (v & 0xff) as u8, val_bytes::<u16>(v)[1] == ((v >> 8) & 0xff) as u8;
pub broadcast axiom fn val_bytes_u32(v: u32)
    ensures (#[trigger] val_bytes::<u32>(v)).len() == 4,
        val_bytes::<u32>(v)[0] == (v & 0xff) as u8, val_bytes::<u32>(v)[1] == ((v >> 8) & 0xff) as u8,
        val_bytes::<u32>(v)[2] == ((v >> 16) & 0xff) as u8, val_bytes::<u32>(v)[3] == ((v >> 24) & 0xff) as u8;

pub assume_specification<T: core::marker::PointeeSized, U>[ <*const T>::cast::<U> ](p: *const T) -> (r: *const U)
    ensures (r as usize) == (p as *const u8 as usize);

pub assume_specification<T>[ <*const T>::read_unaligned ](p: *const T) -> (r: T)
    requires rdr(addr(p), addr(p) + core::mem::size_of::<T>()),
    ensures val_bytes(r).len() == core::mem::size_of::<T>(),
        forall|i: int| 0 <= i < core::mem::size_of::<T>() ==> #[trigger] val_bytes(r)[i] == at(addr(p), i);

pub assume_specification<T>[ <*const T>::read ](p: *const T) -> (r: T)
    requires rdr(addr(p), addr(p) + core::mem::size_of::<T>()), addr(p) % (core::mem::align_of::<T>() as int) == 0,
    ensures val_bytes(r).len() == core::mem::size_of::<T>(),
        forall|i: int| 0 <= i < core::mem::size_of::<T>() ==> #[trigger] val_bytes(r)[i] == at(addr(p), i);
pub broadcast proof fn sz_prims2()
    ensures #[trigger] core::mem::size_of::<u32>() == 4, #[trigger] core::mem::size_of::<u16>() == 2,
{}
pub broadcast axiom fn align_u8()
    ensures #[trigger] core::mem::align_of::<u8>() == 1;
pub proof fn lemma_u32_bytes_inj(v: u32, w: u32)
    ensures (v == w) <==> ((v & 0xff) as u8 == (w & 0xff) as u8 && ((v >> 8) & 0xff) as u8 == ((w >> 8) & 0xff) as u8
        && ((v >> 16) & 0xff) as u8 == ((w >> 16) & 0xff) as u8 && ((v >> 24) & 0xff) as u8 == ((w >> 24) & 0xff) as u8)
{
    assert((v == w) <==> ((v & 0xff) as u8 == (w & 0xff) as u8 && ((v >> 8) & 0xff) as u8 == ((w >> 8) & 0xff) as u8
        && ((v >> 16) & 0xff) as u8 == ((w >> 16) & 0xff) as u8 && ((v >> 24) & 0xff) as u8 == ((w >> 24) & 0xff) as u8)) by(bit_vector);
}
pub proof fn lemma_u16_bytes_inj(v: u16, w: u16)
    ensures (v == w) <==> ((v & 0xff) as u8 == (w & 0xff) as u8 && ((v >> 8) & 0xff) as u8 == ((w >> 8) & 0xff) as u8)
{
    assert((v == w) <==> ((v & 0xff) as u8 == (w & 0xff) as u8 && ((v >> 8) & 0xff) as u8 == ((w >> 8) & 0xff) as u8)) by(bit_vector);
}

pub assume_specification<T>[ <*const T>::offset ](p: *const T, n: isize) -> (r: *const T)
    requires inb(addr(p) + n * core::mem::size_of::<T>())
    ensures addr(r) == addr(p) + n * core::mem::size_of::<T>();

pub broadcast axiom fn val_bytes_usize(v: usize)
    ensures (#[trigger] val_bytes::<usize>(v)).len() == 8,
        forall|k: int| 0 <= k < 8 ==> #[trigger] val_bytes::<usize>(v)[k] == (((v as u64) >> ((8 * k) as u64)) & 0xff) as u8;
pub broadcast proof fn sz_usize()
    ensures #[trigger] core::mem::size_of::<usize>() == 8,
{}
pub broadcast axiom fn align_usize()
    ensures #[trigger] core::mem::align_of::<usize>() == 8;

pub assume_specification<T, U, F: FnOnce(T) -> U>[ Option::<T>::map_or ](x: Option<T>, default: U, f: F) -> (r: U)
    requires x matches Some(v) ==> f.requires((v,)),
    ensures match x { Some(v) => f.ensures((v,), r), None => r == default };

pub assume_specification<T: core::cmp::Ord>[core::cmp::min](a: T, b: T) -> (r: T)
    ensures r == (if a.cmp_spec(&b) == core::cmp::Ordering::Greater { b } else { a });
