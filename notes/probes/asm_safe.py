#!/usr/bin/env python3
# assemble: head + base module (prelude, traits, lemmas, extra base files) + gen module (files)
import sys
base_files = ['prelude.rs','traits_safe.txt','lemmas.txt']
out = sys.argv[1]
gen_files = sys.argv[2:]
head=open('head.txt').read().replace("verus! {","verus! {\nglobal size_of usize == 8;\n")
b=''.join(open(f).read()+"\n" for f in base_files)
g=''.join(open(f).read()+"\n" for f in gen_files)
open(out,'w').write(head+"pub mod base {\nuse super::*;\n"+b+"}\npub mod gen {\nuse super::*;\nuse super::base::*;\nbroadcast use {vector_consts, sz_prims, as_bytes_u8, slice_len_bound, val_bytes_u8, val_bytes_u16, val_bytes_u32, sz_prims2, align_u8, val_bytes_usize, sz_usize, align_usize};\n"+g+"}\n} fn main(){}\n")
