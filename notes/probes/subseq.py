#!/usr/bin/env python3
"""Check that the real source of a function (after dropping comments, attributes,
debug_assert*/assert! statements) is a token SUBSEQUENCE of the probe text (annotations only add tokens)."""
import re,sys
def strip_comments(s):
    s=re.sub(r'//[^\n]*','',s)
    s=re.sub(r'/\*.*?\*/','',s,flags=re.S)
    return s
def find_fn(src, header_regex, nth=1):
    ms=list(re.finditer(header_regex, src))
    m=ms[nth-1]
    i=src.index('{', m.end()-1) if src[m.end()-1]!='{' else m.end()-1
    # find body start: first '{' after the signature's closing paren / return type
    depth=0;j=i
    while True:
        c=src[j]
        if c=='{': depth+=1
        elif c=='}':
            depth-=1
            if depth==0: break
        j+=1
    return src[m.start():j+1]
def drop_macro_stmts(s):
    # remove debug_assert!(...); debug_assert_eq!(...); assert!(...); assert_ne!(...)
    out='';i=0
    pat=re.compile(r'\b(debug_assert|debug_assert_eq|assert|assert_ne|trace|debug)!\s*\(')
    while True:
        m=pat.search(s,i)
        if not m: out+=s[i:];break
        out+=s[i:m.start()]
        d=1;j=m.end()
        while d>0:
            if s[j]=='(':d+=1
            elif s[j]==')':d-=1
            j+=1
        # skip trailing ;
        while s[j] in ' \n\t': j+=1
        if s[j]==';': j+=1
        i=j
    return out
def toks(s):
    s=re.sub(r'#\[[^\]]*\]','',s)
    s=s.replace('pub(crate)','pub')
    return re.findall(r"[A-Za-z_][A-Za-z0-9_]*|\d+|'[a-z_]+|[^\sA-Za-z0-9_]",s)
def is_subseq(a,b):
    j=0
    for k,t in enumerate(a):
        while j<len(b) and b[j]!=t: j+=1
        if j==len(b): return False,k
        j+=1
    return True,-1
if __name__=='__main__':
    srcfile,regex,nth,probefile=sys.argv[1],sys.argv[2],int(sys.argv[3]),sys.argv[4]
    src=strip_comments(open(srcfile).read())
    fn=drop_macro_stmts(find_fn(src,regex,nth))
    a=[t for t in toks(fn) if t not in ('pub',)]
    b=[t for t in toks(strip_comments(open(probefile).read())) if t not in ('pub',)]
    ok,k=is_subseq(a,b)
    print(('OK  ' if ok else 'FAIL'), regex, nth, len(a),'tokens', '' if ok else 'stuck at: '+' '.join(a[max(0,k-8):k+4]))
