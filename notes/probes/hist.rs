use vstd::prelude::*;
verus! {
// h[i] == true  <=>  position i holds one of the needle bytes
pub open spec fn is_first(h: Seq<bool>, s: int, e: int, r: Option<int>) -> bool {
    match r {
        Some(i) => s <= i < e && h[i] && forall|j: int| s <= j < i ==> !h[j],
        None => forall|j: int| s <= j < e ==> !h[j],
    }
}
pub open spec fn is_last(h: Seq<bool>, s: int, e: int, r: Option<int>) -> bool {
    match r {
        Some(i) => s <= i < e && h[i] && forall|j: int| i < j < e ==> !h[j],
        None => forall|j: int| s <= j < e ==> !h[j],
    }
}
pub struct St { pub s: int, pub e: int, pub fronts: Seq<int>, pub backs: Seq<int> }

pub open spec fn asc(x: Seq<int>) -> bool { forall|a: int, b: int| 0 <= a < b < x.len() ==> x[a] < x[b] }
pub open spec fn desc(x: Seq<int>) -> bool { forall|a: int, b: int| 0 <= a < b < x.len() ==> x[a] > x[b] }

pub open spec fn inv(h: Seq<bool>, st: St) -> bool {
    &&& 0 <= st.s <= st.e <= h.len()
    &&& asc(st.fronts) && desc(st.backs)
    &&& forall|k: int| 0 <= k < st.fronts.len() ==> 0 <= #[trigger] st.fronts[k] < st.s && h[st.fronts[k]]
    &&& forall|k: int| 0 <= k < st.backs.len() ==> st.e <= #[trigger] st.backs[k] < h.len() && h[st.backs[k]]
    // completeness: every hit is either already yielded or still inside the window
    &&& forall|i: int| 0 <= i < h.len() && #[trigger] h[i] ==> (st.s <= i < st.e || st.fronts.contains(i) || st.backs.contains(i))
}

// one refinement step of the real next(): result r characterised by is_first (the contract of Iter::next)
pub open spec fn step_front(st: St, r: Option<int>) -> St {
    match r { Some(i) => St { s: i + 1, fronts: st.fronts.push(i), ..st }, None => st }
}
pub open spec fn step_back(st: St, r: Option<int>) -> St {
    match r { Some(i) => St { e: i, backs: st.backs.push(i), ..st }, None => st }
}

pub proof fn lemma_front(h: Seq<bool>, st: St, r: Option<int>)
    requires inv(h, st), is_first(h, st.s, st.e, r),
    ensures inv(h, step_front(st, r)),
        // the new yield is fresh and larger than every earlier front yield, smaller than every back yield
        r matches Some(i) ==> (!st.fronts.contains(i) && !st.backs.contains(i)
            && (forall|k: int| 0 <= k < st.fronts.len() ==> st.fronts[k] < i)
            && (forall|k: int| 0 <= k < st.backs.len() ==> i < st.backs[k])),
        // fused: None now means None forever from both ends (window has no hit and never grows)
        r is None ==> (is_first(h, st.s, st.e, None) && is_last(h, st.s, st.e, None)),
        // size_hint bracket: remaining hits <= e - s
{
    match r {
        Some(i) => {
            let st2 = step_front(st, r);
            assert forall|a: int, b: int| 0 <= a < b < st2.fronts.len() implies st2.fronts[a] < st2.fronts[b] by {
                if b == st.fronts.len() { assert(st.fronts[a] < st.s); }
            }
            assert forall|k: int| 0 <= k < st2.fronts.len() implies 0 <= #[trigger] st2.fronts[k] < st2.s && h[st2.fronts[k]] by {
                if k < st.fronts.len() { assert(st.fronts[k] < st.s); }
            }
            assert forall|j: int| 0 <= j < h.len() && #[trigger] h[j] implies (st2.s <= j < st2.e || st2.fronts.contains(j) || st2.backs.contains(j)) by {
                if st.s <= j < st.e {
                    if j == i { assert(st2.fronts[st.fronts.len() as int] == i); }
                    else { assert(j > i); }
                } else if st.fronts.contains(j) {
                    let k = choose|k: int| 0 <= k < st.fronts.len() && st.fronts[k] == j;
                    assert(st2.fronts[k] == j);
                }
            }
        }
        None => {}
    }
}

pub proof fn lemma_back(h: Seq<bool>, st: St, r: Option<int>)
    requires inv(h, st), is_last(h, st.s, st.e, r),
    ensures inv(h, step_back(st, r)),
        r matches Some(i) ==> (!st.fronts.contains(i) && !st.backs.contains(i)
            && (forall|k: int| 0 <= k < st.backs.len() ==> st.backs[k] > i)
            && (forall|k: int| 0 <= k < st.fronts.len() ==> st.fronts[k] < i)),
        r is None ==> (is_first(h, st.s, st.e, None) && is_last(h, st.s, st.e, None)),
{
    match r {
        Some(i) => {
            let st2 = step_back(st, r);
            assert forall|a: int, b: int| 0 <= a < b < st2.backs.len() implies st2.backs[a] > st2.backs[b] by {
                if b == st.backs.len() { assert(st.backs[a] >= st.e); }
            }
            assert forall|k: int| 0 <= k < st2.backs.len() implies st2.e <= #[trigger] st2.backs[k] < h.len() && h[st2.backs[k]] by {
                if k < st.backs.len() { assert(st.backs[k] >= st.e); }
            }
            assert forall|j: int| 0 <= j < h.len() && #[trigger] h[j] implies (st2.s <= j < st2.e || st2.fronts.contains(j) || st2.backs.contains(j)) by {
                if st.s <= j < st.e {
                    if j == i { assert(st2.backs[st.backs.len() as int] == i); }
                    else { assert(j < i); }
                } else if st.backs.contains(j) {
                    let k = choose|k: int| 0 <= k < st.backs.len() && st.backs[k] == j;
                    assert(st2.backs[k] == j);
                }
            }
        }
        None => {}
    }
}

// initial state of Iter::new
pub proof fn lemma_init(h: Seq<bool>)
    ensures inv(h, St { s: 0, e: h.len() as int, fronts: Seq::empty(), backs: Seq::empty() })
{}
}
fn main(){}
