use vstd::prelude::*;
verus! {
global size_of usize == 8;
pub open spec fn byte64(x: u64, i: u64) -> u64 { (x >> (8 * i)) & 0xff }

proof fn lemma_has_zero(x: u64)
    ensures ((sub(x, 0x0101010101010101u64) & !x & 0x8080808080808080u64) != 0)
        <==> (byte64(x,0)==0 || byte64(x,1)==0 || byte64(x,2)==0 || byte64(x,3)==0 || byte64(x,4)==0 || byte64(x,5)==0 || byte64(x,6)==0 || byte64(x,7)==0)
{
    assert(((sub(x, 0x0101010101010101u64) & !x & 0x8080808080808080u64) != 0)
        <==> (((x >> 0u64) & 0xff)==0 || ((x >> 8u64) & 0xff)==0 || ((x >> 16u64) & 0xff)==0 || ((x >> 24u64) & 0xff)==0 || ((x >> 32u64) & 0xff)==0 || ((x >> 40u64) & 0xff)==0 || ((x >> 48u64) & 0xff)==0 || ((x >> 56u64) & 0xff)==0)) by(bit_vector);
}

proof fn lemma_splat(b: u64)
    requires b < 256
    ensures forall|i: u64| i < 8 ==> #[trigger] byte64(mul(b, 0x0101010101010101u64), i) == b
{
    assert(((mul(b, 0x0101010101010101u64) >> 0u64) & 0xff) == b
        && ((mul(b, 0x0101010101010101u64) >> 8u64) & 0xff) == b
        && ((mul(b, 0x0101010101010101u64) >> 16u64) & 0xff) == b
        && ((mul(b, 0x0101010101010101u64) >> 24u64) & 0xff) == b
        && ((mul(b, 0x0101010101010101u64) >> 32u64) & 0xff) == b
        && ((mul(b, 0x0101010101010101u64) >> 40u64) & 0xff) == b
        && ((mul(b, 0x0101010101010101u64) >> 48u64) & 0xff) == b
        && ((mul(b, 0x0101010101010101u64) >> 56u64) & 0xff) == b) by(bit_vector) requires b < 256;
}

proof fn lemma_xor_byte(v: u64, c: u64, n: u64, i: u64)
    requires i < 8, n < 256, byte64(v, i) == n
    ensures (byte64(v ^ c, i) == 0) <==> (byte64(c, i) == n)
{
    assert((((v >> (8*i)) & 0xff) == n && i < 8 && n < 256) ==> (((((v ^ c) >> (8*i)) & 0xff) == 0) <==> (((c >> (8*i)) & 0xff) == n))) by(bit_vector);
}

proof fn lemma_u32_inj(v: u32, w: u32)
    requires (v & 0xff) == (w & 0xff), ((v >> 8) & 0xff) == ((w >> 8) & 0xff), ((v >> 16) & 0xff) == ((w >> 16) & 0xff), ((v >> 24) & 0xff) == ((w >> 24) & 0xff)
    ensures v == w
{
    assert(((v & 0xff) == (w & 0xff) && ((v >> 8) & 0xff) == ((w >> 8) & 0xff) && ((v >> 16) & 0xff) == ((w >> 16) & 0xff) && ((v >> 24) & 0xff) == ((w >> 24) & 0xff)) ==> v == w) by(bit_vector);
}
}
fn main(){}
